"""C14 - index.rst toctrees are closed and complete (the C13 space plus exclusion patterns, closure invariant)."""
import itertools
import os

from .. import common, fsbox, dirmodel
from ..dirmodel import Tree
from .C13 import assignments

ID = "C14"
RULE = ("every tree shape with <=4/5 directory nodes x content assignments with <=1/2 varied directories x {no pattern, "
        "each single exclusion pattern instantiated from the tree's own names (bare directory name, name/, bare file "
        "name, a*.cmake, *.cmake, absolute file path, absolute directory path/)} (thorough: pairs of patterns) x "
        "recursive x auto-exclusion x prefix, plus symbolic links to directories (inside / outside the tree, followed or "
        "not); real cminx.main in a fresh sandbox.  Oracle (pure closure, no reference "
        "walk): every index has one toctree with pairwise distinct entries, every entry has a generated target in the "
        "same output directory, every page and index is reachable from the top index.rst, file entries equal the pages "
        "of the directory, sub-indexes only in recursive mode, titles name prefix and directory.  non-trivial = >=2 "
        "indexes or >=3 toctree entries; distinct by (tree, patterns, configuration)")


def patterns_for(tree, boxroot):
    dn = sorted({tree.names[i] for i in range(1, len(tree.parents))})
    pats = []
    for d in dn:
        pats += [d, d + "/"]
    fn = sorted({f for i in range(len(tree.parents)) for f in tree.files(i) if dirmodel.is_cmake(f)})
    pats += fn
    pats += ["a*.cmake", "*.cmake", "**/" + (dn[0] if dn else "zz") + "/"]
    # patterns with an inner slash (anchored in gitignore terms), written relative to the input directory
    for i in sorted(i for i in {1, len(tree.parents) - 1} if 0 < i < len(tree.parents)):
        pats += [tree.rel(i) + "/*.cmake", tree.names[i] + "/a.cmake"]
    pats = list(dict.fromkeys(pats))
    for i in range(len(tree.parents)):
        rel = tree.rel(i)
        base = os.path.join(boxroot, "work", "in") if rel == "." else os.path.join(boxroot, "work", "in", rel)
        if i:
            pats.append("ABS:" + rel + "/")
        for f in tree.files(i):
            if dirmodel.is_cmake(f):
                pats.append("ABS:" + dirmodel._join(rel, f))
                break
    return pats


def resolve(p, boxroot):
    if p.startswith("ABS:"):
        return os.path.join(boxroot, "work", "in", p[4:])
    return p


def run_case(job, ret_files=False):
    parents, contents, recursive, auto, prefix, pats = job[:6]
    symlink, follow = (job[6], job[7]) if len(job) > 6 else (None, False)
    rstopts = dict(job[8]) if len(job) > 8 else {}
    tree = Tree(parents, contents)
    box = fsbox.Box("c14")
    msgs = []
    nt = False
    try:
        box.build(tree.spec("in"))
        if symlink == "filelink":
            # a sub-directory whose only CMake entry is a symbolic link to a file
            os.makedirs(box.path("work", "in", "compat"))
            os.symlink(os.path.join("..", "a.cmake"), box.path("work", "in", "compat", "old_name.cmake"))
            box.build({"in/compat/v1/shim.cmake": fsbox.cmake_content("shim.cmake")})
        elif symlink:
            # a symbolic link to a directory with CMake files, inside the input directory
            if symlink == "child" and len(parents) > 1:
                target = tree.names[1]
            else:
                box.build({"elsewhere/c.cmake": fsbox.cmake_content("elsewhere/c")})
                target = os.path.join("..", "elsewhere")
            os.symlink(target, box.path("work", "in", "lnk"))
        rp = [resolve(p, box.root) for p in pats]
        import pathspec
        spec = pathspec.PathSpec.from_lines("gitwildmatch", rp)
        root_files = [f for f in tree.files(0) if f.endswith(".cmake")
                      and not spec.match_file(os.path.join(box.path("work", "in"), f))]
        if auto and not root_files:
            return {"viol": [], "obs": None, "nt": None, "n": 0}    # domain: the input directory keeps a .cmake file
        with open(box.path("work", "s.yaml"), "w") as f:
            f.write(f"input:\n  auto_exclude_directories_without_cmake: {str(auto).lower()}\n"
                    f"  follow_symlinks: {str(follow).lower()}\n")
            if [k for k in rstopts if k not in ("input_via_link", "input_spelling")]:
                f.write("rst:\n" + "".join(f"  {k}: {v if not isinstance(v, bool) else str(v).lower()}\n" for k, v in rstopts.items() if k not in ("input_via_link", "input_spelling")))
        argv = ["-s", "s.yaml", "-o", "out"] + (["-r"] if recursive else []) + (["-p", prefix] if prefix else [])
        for p in rp:
            argv += ["-e", p]
        inp = "in"
        if rstopts.pop("input_via_link", None):
            # the input directory is given through a symbolic link with another name: it is named as it was given
            os.symlink("in", box.path("work", "alias-1.4"))
            inp = "alias-1.4"
        spelling = rstopts.pop("input_spelling", None)
        if spelling:
            # the input directory named relative to a working directory inside (or beside) it: it is still the directory "in"
            cwd, given = {"dot": ("work/in", "."), "dotslash": ("work/in", "./"), "updown": ("work/in", "../in"),
                          "through": ("work", "in/../in"), "trail": ("work", "in/"), "dotdot": ("work/in/" + (tree.names[1] if len(parents) > 1 else ""), "..")}[spelling]
            if spelling == "dotdot" and len(parents) < 2:
                cwd, given = "work/in", "."
            argv = [os.path.abspath(box.path("work", a)) if a in ("s.yaml", "out") else a for a in argv]
            r = box.run(argv + [given], cwd=cwd)
        else:
            r = box.run(argv + [inp])
        if r["status"] != 0:
            msgs.append(f"error: run failed: {r['exc'] or r['stdout'][-200:]}")
            files = {}
        else:
            files = box.files("work/out") if os.path.isdir(box.path("work", "out")) else {}
            if files:
                msgs += dirmodel.closure_messages(files, recursive, prefix or inp,
                                                  sep=str(rstopts.get("module_path_separator", ".")).strip("'"))
            nidx = sum(1 for k in files if k.endswith("index.rst"))
            nt = nidx >= 2 or len(files) >= 4
        if msgs:
            msgs = [f"{m}   [patterns {pats}, recursive={recursive}, auto={auto}, symlink={symlink} followed={follow}, "
                    f"tree {tree.describe()}]" for m in msgs]
    finally:
        box.cleanup()
    msgs = [m.replace(box.root, "<box>") for m in msgs]
    res = {"viol": msgs[:6], "obs": common.digest(sorted(files)), "n": 1, "nt": common.digest(job) if nt else None,
           "cls": msgs[0].split(":")[0] if msgs else None}
    if ret_files:
        res["files"] = files
    return res


GROW = {"empty": "one", "txt": "one", "one": "two", "upperonly": "mixedcase"}      # additive changes of a directory's content


SHRINK = {"two": "one", "mixedcase": "one", "stemorder": "one", "casepair": "one"}     # a directory loses CMake files


def run_history(job):
    """two runs into ONE output directory; between them a directory of the input gains a CMake file (so that, e.g., a
    sub-directory that was auto-excluded now is processed).  The second run's output must be closed and equal to what a
    fresh run on the grown tree writes"""
    parents, contents, node, recursive, auto = job[:5]
    shrink = len(job) > 5 and job[5] == "shrink"
    t1 = Tree(parents, contents)
    c2 = list(contents)
    c2[node] = (SHRINK if shrink else GROW)[contents[node]]
    t2 = Tree(parents, c2)
    box = fsbox.Box("c14h")
    msgs = []
    files = {}
    try:
        box.build(t1.spec("in"))
        past = 1_600_000_000
        for root, dirs, fs in os.walk(box.path("work", "in")):
            for n in dirs + fs:
                os.utime(os.path.join(root, n), (past, past))
        os.utime(box.path("work", "in"), (past, past))
        with open(box.path("work", "s.yaml"), "w") as f:
            f.write(f"input:\n  auto_exclude_directories_without_cmake: {str(auto).lower()}\n")
        argv = ["-s", "s.yaml"] + (["-r"] if recursive else [])
        r1 = box.run(argv + ["-o", "out", "in"])
        box.build({k: v for k, v in t2.spec("in").items() if k not in t1.spec("in")})
        for k in t1.spec("in"):
            if k not in t2.spec("in"):
                os.remove(box.path("work", k))
        r2 = box.run(argv + ["-o", "out", "in"])
        r3 = box.run(argv + ["-o", "fresh", "in"])
        if r1["status"] or r2["status"] or r3["status"]:
            msgs.append(f"error: run failed: {r1['exc'] or r2['exc'] or r3['exc']}")
        else:
            files = box.files("work/out")
            fresh = box.files("work/fresh")
            if shrink:
                # pages of the files that are gone stay behind (nobody asked to delete them); every index must be the fresh one
                stale = sorted(set(files) - set(fresh))
                files = {k: v for k, v in files.items() if k in fresh}
            msgs += dirmodel.closure_messages(files, recursive, "in")
            if files != fresh:
                diffk = sorted(k for k in set(files) | set(fresh) if files.get(k) != fresh.get(k))
                msgs.append(f"rerun: after the input grew, a second run into the same output directory differs from a fresh run in {diffk[:4]}")
        if msgs:
            msgs = [f"{m}   [tree {t1.describe()} -> node {t1.rel(node)} becomes {dirmodel.CONTENT[c2[node]]}, recursive={recursive}, auto={auto}]" for m in msgs]
    finally:
        box.cleanup()
    msgs = [m.replace(box.root, "<box>") for m in msgs]
    return {"viol": msgs[:4], "obs": common.digest(sorted(files)), "n": 3, "nt": common.digest(job),
            "cls": msgs[0].split(":")[0] if msgs else None, "case": {"history": list(job)}}


def run(ctx):
    quick = ctx.tier == "quick"
    shapes = dirmodel.shapes(4 if quick else 5, 3)
    jobs = []
    for parents in shapes:
        n = len(parents)
        for a in assignments(n, 1 if quick else (2 if n <= 3 else 1), with_indexfile=True):
            t = Tree(parents, a)
            pats = patterns_for(t, "<box>")
            psets = [[]] + [[p] for p in pats]
            if quick and any(c not in ("one", "two", "mixedcase", "dots", "stemorder", "indexfile", "upperonly", "casepair", "empty", "txt")
                             for c in a):
                psets = [[]]      # quick: the remaining content classes are crossed with patterns in the thorough tier only
            if not quick and n <= 2:
                psets += [list(c) for c in itertools.combinations(pats, 2)]
            for ps in psets:
                for recursive, auto in itertools.product((True, False), (True, False)):
                    if not recursive and ps and not any("cmake" in p for p in ps):
                        continue
                    jobs.append((parents, a, recursive, auto, None if (len(jobs) % 3) else "P", ps))
    # symbolic links to directories (followed and not followed)
    for parents in shapes:
        a = ["one"] * len(parents)
        for symlink in ("child", "outside", "filelink"):
            for follow in (False, True):
                for recursive, auto in itertools.product((True, False), (True, False)):
                    jobs.append((parents, a, recursive, auto, None, [], symlink, follow))
                    if quick:
                        continue
                    jobs.append((parents, a, recursive, auto, "P", ["lnk/"], symlink, follow))
    # the rst options that change how pages are titled must not change how they are linked
    ropts = [(("file_extensions_in_titles", True),), (("file_extensions_in_modules", True),),
             (("file_extensions_in_titles", True), ("file_extensions_in_modules", True), ("module_path_separator", "'/'")),
             (("module_path_separator", "'::'"),)]
    for parents in shapes:
        for a in (["one"] * len(parents), ["dots"] + ["two"] * (len(parents) - 1)):
            for ro in ropts:
                for recursive, auto in itertools.product((True, False), (True, False)):
                    jobs.append((parents, a, recursive, auto, None if len(jobs) % 2 else "P", [], None, False, ro))
    # prefixes that contain path separators or dots; the input given through a symbolic link of another name
    for parents in shapes:
        a = ["one"] * len(parents)
        for pre in ("Org/Proj", "a//b", "trail/", "./rel", "v1.2", "Org.Proj"):
            for ro in ((), (("module_path_separator", "'/'"),)):
                jobs.append((parents, a, True, True, pre, [], None, False, ro))
        for recursive in (True, False):
            jobs.append((parents, a, recursive, True, None, [], None, False, (("input_via_link", True),)))
            for sp in ("dot", "dotslash", "updown", "through", "trail", "dotdot"):
                for pre in (None, "P"):
                    jobs.append((parents, a, recursive, True, pre, [], None, False, (("input_spelling", sp),)))
    ctx.cov["bounds"] = {"tree_shapes": len(shapes), "runs": len(jobs)}
    ctx.sweep(run_case, jobs, space="trees x patterns x configurations", selftest=5)
    hjobs = []
    for parents in shapes:
        n = len(parents)
        for node in range(1, n):
            for c in GROW:
                a = ["one"] * n
                a[node] = c
                for recursive, auto in ((True, True), (True, False), (False, True)):
                    hjobs.append((parents, a, node, recursive, auto))
    for parents in shapes:
        n = len(parents)
        for node in range(0, n):
            for c in SHRINK:
                a = ["one"] * n
                a[node] = c
                for recursive in (True, False):
                    if node == 0 or recursive:
                        hjobs.append((parents, a, node, recursive, True, "shrink"))
    ctx.sweep(run_history, hjobs, space="two runs into one output directory, the input grows / shrinks in between", selftest=2)
    ctx.assumptions += ["with auto-exclusion on the input directory keeps a non-excluded .cmake file (domain of C13/C14)",
                        "a run that produces no output at all (excluded input) is C15's business"]
    return RULE


def attribute(case, msgs):
    """K4 (see C13.attribute): only if the tree holds a file named index.cmake and the case passes once it is renamed"""
    c = list(case)
    if "indexfile" not in c[1]:
        return None
    c[1] = ["indexfile_renamed" if x == "indexfile" else x for x in c[1]]
    c[5] = [p.replace("index.cmake", "index_.cmake") for p in c[5]]
    if run_case(tuple(c))["viol"]:
        return None
    files = run_case(tuple(case), ret_files=True).get("files") or {}
    return "K4" if dirmodel.k4_known_shape(Tree(case[0], case[1]), files) else None


def replay(case):
    if isinstance(case, dict) and "history" in case:
        return run_history(tuple(case["history"]))["viol"]
    return run_case(tuple(case))["viol"]
