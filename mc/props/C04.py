"""C04 - layout, comments and command-name case do not affect the output (deviation-bounded pairs)."""
import functools
import itertools

from .. import common, cmakegen, modsearch, pipeline, reflex, statespace
from .C01 import INDENTS

ID = "C04"
RULE = ("base modules = every balanced module of <=N events of the C02 alphabet plus a kitchen-sink module with every "
        "command kind; variants = every single token-gap deviation (each gap position x each filler: spaces, tabs, "
        "newlines, line comments of all four lexer shapes incl. code-like and delimiter-like text, bracket comments of "
        "level 0/1/2 incl. doccomment-like text), every global transform (doccomment block re-indented by 9 indents, "
        "command-name case lower/UPPER/MiXed, LF->CRLF) and, in the thorough tier, pairs of deviations; oracle = byte "
        "equality of the rendered page with the default layout's page (CRLF: modulo '\\r' and whitespace-only lines). "
        "non-trivial = the default page has >=1 entry; distinct by variant text digest")

WS = [" ", "  ", "\t"]
FILL = WS + ["\n", "\n\n", " # c\n", "#\n", "#[\n", "#[=\n", "#[=x\n", "# #[[[ x\n", "#]]\n", "# set(A 1)\n",
             "#[[ b ]]", "#[[ #[[[ x ]]", "#[=[ ]] ]=]", "#[==[\nmulti\n]==]", "# café ✓\n",
             "# ${ARGN} ${ARGV} cmake_parse_arguments(P \"\" \"\" \"\" ${ARGN}) :keyword\n", "#[[ ${ARGN} :keyword x: ]]"]
LIGHT = ["\n", " # c\n", "#[[ b ]]"]

KITCHEN = [
    {"k": "module", "name": "kitchen.sink", "doctext": ["Module doc line.", "", "second"]},
    {"k": "cpp_class", "doc": 1, "bases": ["Base"]}, {"k": "cpp_attr", "doc": 1, "default": "red"},
    {"k": "cpp_member", "doc": 1, "types": ["int", "args"], "params": ["a", "b"]}, {"k": "cmake_parse_arguments"},
    {"k": "close"}, {"k": "cpp_constructor", "doc": 0, "types": ["int"], "params": ["x"], "impl": "macro"}, {"k": "close"},
    {"k": "cpp_class", "doc": 0}, {"k": "close"}, {"k": "close"},
    {"k": "function", "doc": 2, "params": ["p1", '"q p"', "[[br]]"]}, {"k": "cmake_parse_arguments"},
    {"k": "if", "doc": 1, "args": ["NOT", ["A", "AND", ["B"]], "OR", "C"]}, {"k": "close"}, {"k": "close"},
    {"k": "macro", "doc": 0, "params": ["m1"]}, {"k": "close"},
    {"k": "ct_add_test", "doc": 1, "expectfail": 1}, {"k": "ct_add_section", "doc": 0}, {"k": "close"}, {"k": "close"},
    {"k": "option", "doc": 0}, {"k": "set", "doc": 1, "values": ["a", '"b c"']},
    {"k": "generic", "doc": 1}, {"k": "comment", "shape": 4}, {"k": "add_test", "doc": 1},
]


ALL_INDENTED = [      # leader style, but every text line of a doccomment has extra leading spaces
    {"k": "function", "doc": 1, "params": ["a"], "doctext": ["  Indented first.", "", "    deeper", "  back"]},
    {"k": "close"},
    {"k": "set", "doc": 1, "values": ['"first part \\\nsecond part"'], "doctext": [" one space more", "col1\tcol2\tcol3", "\ttab first"]},
    {"k": "option", "doc": 1, "help": '"help \\\ncontinued"', "doctext": ["x\ty"]},
    {"k": "module", "name": "", "doctext": ["   module text indented", "   second"]},
]
ALL_INDENTED = ALL_INDENTED[-1:] + ALL_INDENTED[:-1]


LEADERLESS = [
    {"k": "function", "doc": 1, "params": ["a"], "doctext": ["Example::", "", "    literal line", "      deeper", "",
                                                               ".. note::", "", "   body of the note"]},
    {"k": "close"},
    {"k": "set", "doc": 1, "values": ["v"], "doctext": ["term", "   definition body"]},
    {"k": "cpp_class", "doc": 1}, {"k": "cpp_attr", "doc": 1, "default": "d", "doctext": ["* item", "  continued"]},
]


def _twin_block():
    return [{"k": "function", "doc": 1, "name": "twin_fn", "doctext": ["Twin function.", "", "  indented"], "params": ["t"]},
            {"k": "close"},
            {"k": "set", "doc": 1, "name": "TWIN_VAR", "doctext": ["Twin variable.", "  more"], "values": ["v"]},
            {"k": "option", "doc": 1, "name": "TWIN_OPT", "doctext": ["Twin option.", "  more"], "help": '"h"'},
            {"k": "generic", "doc": 1, "cmd": "twin_cmd", "args": ["A", '"b c"'], "doctext": ["Twin command.", "  more"]},
            {"k": "add_test", "doc": 1, "name": "twin_test", "args": ["NAME", "twin_test", "COMMAND", "prog"],
             "doctext": ["Twin test.", "  more"]}]


# the same documented commands verbatim in the two branches of an if()/else() (else is an ordinary command here)
TWINS = [{"k": "if", "doc": 0}] + _twin_block() + [{"k": "generic", "doc": 0, "cmd": "else", "args": []}] + _twin_block() + [{"k": "close"}]

MULTILINE = [     # a quoted value over several lines, continuation lines indented; the command itself starts indented
    {"k": "function", "doc": 0, "params": []},
    {"k": "set", "doc": 1, "values": ['"line one\n      six more\n   three more\n\ttab"'], "doctext": ["A text block."]},
    {"k": "option", "doc": 1, "help": '"help one\n     five more"', "doctext": ["An option."]},
    {"k": "generic", "doc": 1, "cmd": "message", "args": ["STATUS", '"msg one\n    four more"'], "doctext": ["A command."]},
    # bracket arguments whose text starts on the line after the opener (CMake drops that first line break)
    {"k": "set", "doc": 1, "values": ["[[\nCopyright (c) the authors\n  second line\n]]"], "doctext": ["A bracket block."]},
    {"k": "set", "doc": 1, "values": ["[=[\n\nafter an empty line ]] still\n]=]"], "doctext": ["A level-one bracket block."]},
    {"k": "option", "doc": 1, "help": "[[\nhelp in brackets\n]]", "doctext": ["An option with bracket help."]},
]

NOKW = [      # definitions that take no keyword arguments: comment text that mentions ${ARGN} etc. must not add **kwargs
    {"k": "function", "doc": 1, "params": ["name"]}, {"k": "generic", "doc": 0}, {"k": "close"},
    {"k": "macro", "doc": 1, "params": ["m"]}, {"k": "generic", "doc": 0}, {"k": "close"},
    {"k": "cpp_class", "doc": 1}, {"k": "cpp_member", "doc": 1, "types": ["int"], "params": ["a"]}, {"k": "generic", "doc": 0},
    {"k": "close"}, {"k": "close"},
    {"k": "ct_add_test", "doc": 1}, {"k": "generic", "doc": 0}, {"k": "close"},
]


ABUT = [     # quoted arguments followed by further arguments: CMake accepts them without any separator in between
    {"k": "set", "doc": 1, "values": ['"Hello, "', '"World"', "tail"], "doctext": ["A list."]},
    {"k": "add_test", "doc": 1, "args": ["NAME", "abut_test", "COMMAND", "prog", '"a b"', '"c"', "d"], "doctext": ["A test."]},
    {"k": "generic", "doc": 1, "cmd": "message", "args": ['"x"', "y", '"z"'], "doctext": ["A command."]},
    {"k": "option", "doc": 1, "help": '"help"', "default": "ON"},
    {"k": "cpp_class", "doc": 1}, {"k": "cpp_attr", "doc": 1, "default": '"dv"'},
]

UNDOC_THEN_DOC = [     # undocumented commands directly followed by documented ones (a doccomment may start on the line the
    {"k": "set", "doc": 0, "values": ["1"]}, {"k": "set", "doc": 1, "values": ["2"]},       # previous command ends on)
    {"k": "option", "doc": 0}, {"k": "option", "doc": 1},
    {"k": "generic", "doc": 0}, {"k": "function", "doc": 1, "params": ["a"]}, {"k": "set", "doc": 0, "values": ["x", "y"]},
    {"k": "set", "doc": 1, "values": ["z"]}, {"k": "close"},
    {"k": "set", "doc": 0, "values": []}, {"k": "generic", "doc": 1},
]

EMPTYDOCS = [     # doccomments without any text, judged under include_undocumented_* all off as well
    {"k": "function", "doc": 1, "params": ["a"], "doctext": []}, {"k": "close"},
    {"k": "macro", "doc": 1, "params": [], "doctext": [""]}, {"k": "close"},
    {"k": "option", "doc": 1, "doctext": []}, {"k": "add_test", "doc": 1, "doctext": []},
    {"k": "ct_add_test", "doc": 1, "doctext": [""]}, {"k": "ct_add_section", "doc": 1, "doctext": []}, {"k": "close"}, {"k": "close"},
    {"k": "cpp_class", "doc": 1, "doctext": []}, {"k": "cpp_attr", "doc": 1, "doctext": []},
    {"k": "cpp_member", "doc": 1, "types": ["int"], "params": ["a"], "doctext": [""]}, {"k": "close"},
    {"k": "cpp_constructor", "doc": 1, "types": [], "params": [], "doctext": []},
]
ALL_OFF = tuple(("include_undocumented_" + k, False) for k in ("function", "macro", "cpp_class", "cpp_attr", "cpp_constructor",
                                                              "cpp_member", "ct_add_test", "add_test", "ct_add_section", "option"))


def page_of(text, raw_newlines=False, cfg=None):
    r = pipeline.document_text(text, pipeline.make_settings(dict(cfg)) if cfg else None)
    return r["page"], r["error"]


def validate_abutting():
    """the lenient reading of `"a""b"` (two arguments) is CMake's own: checked against `cmake --trace` once per run"""
    import json as _json
    import os
    import subprocess
    body = 'probe("a""b" "c"d "e"${f} g)\nprobe("x"\n"y")\n'
    path = os.path.join(pipeline.tmpdir(), "abut.cmake")
    with open(path, "w") as f:
        f.write("function(probe)\nendfunction()\n" + body)
    p = subprocess.run(["cmake", "--trace", "--trace-format=json-v1", "-P", path], capture_output=True, text=True)
    got = [_json.loads(l)["args"] for l in p.stderr.splitlines() if l.startswith('{"args"') and _json.loads(l)["cmd"] == "probe"]
    want = [a for n, a, _ in reflex.parse(body, lenient=True)]
    if p.returncode != 0 or got != want:
        raise common.HarnessFault(f"cmake does not read abutting arguments the way the reference does: {got} vs {want} ({p.stderr[-200:]})")


def gap_variants(toks, kinds, fillers, only_between=False):
    """yield (gap_index, filler, gap_text)"""
    lay = cmakegen.DEFAULT_LAYOUT
    for n in range(len(toks) - 1):
        a, b = kinds[n], kinds[n + 1]
        default = cmakegen.default_gap(a, b, lay)
        between = a in (")", "doc", "moddoc", "comment") and b in ("id", "doc", "comment")
        if only_between and not between:
            continue
        for f in fillers:
            if a == "id":
                if f not in WS:
                    continue
                yield n, f, f
                continue
            if f == "<none>":
                # no separator at all: only after a quoted argument, in front of a quoted or plain unquoted one
                if a == "arg" and b == "arg" and toks[n].startswith('"') and (toks[n + 1].startswith('"') or toks[n + 1][:1].isalnum()):
                    yield n, "<no separator after a quoted argument>", ""
                continue
            lead = " " if (default == "" and a not in ("(", "((")) else ""
            # a bracket comment must not share its line with a following command (CMake rejects that)
            trail = "" if f[-1] in " \t\n" else ("\n" if b in ("id", "doc", "moddoc") else " ")
            yield n, f, default + lead + f + trail
            if b in ("doc", "moddoc") and f[-1] not in " \t\n":
                # a bracket comment in front of the doccomment opener on the same line (both are comments: valid)
                yield n, f + " <same line as the doccomment>", default + lead + f + " "
            if a == ")" and f.lstrip().startswith("#"):
                # trailing comment on the command's own line
                yield n, f, " " + f.lstrip() + ("" if f.endswith("\n") else "\n")
        if a == ")" and b in ("doc", "comment") and not only_between:
            yield n, "<same line>", " "      # the following (doc)comment starts on the command's line


def norm_crlf(s):
    return "\n".join(l for l in s.replace("\r", "").split("\n") if l.strip())


def check_module(job):
    events, mode = job[0], job[1]
    part, nparts = (job[2], job[3]) if len(job) > 2 else (0, 1)
    base_layout = dict(job[4]) if len(job) > 4 else {}
    cfg = job[5] if len(job) > 5 else None
    _render = cmakegen.render

    def render_with_base(its_, layout=None, gaps=None, over=None):
        lay = dict(base_layout)
        lay.update(layout or {})
        return _render(its_, lay, gaps, over)
    counter = [0]
    evs = cmakegen.close(events)
    its = cmakegen.items(evs)
    base_text = render_with_base(its)
    base, err = page_of(base_text, cfg=cfg)
    n = 1
    viol = []
    digs = set()

    def cmp(label, text, crlf=False):
        nonlocal n
        counter[0] += 1
        if counter[0] % nparts != part:
            return
        n += 1
        digs.add(common.digest(text))
        # the variant generator is validated first: CMake's view of the commands must be unchanged
        try:
            cmds = [(nm.lower(), a) for nm, a, _ in reflex.parse(text, lenient=True)]
        except reflex.LexError as ex:
            raise common.HarnessFault(f"layout variant is not valid CMake ({ex}) [{label}]: {text[:300]!r}")
        if crlf:      # a line break inside a quoted argument is rewritten, too: the argument is compared modulo '\r'
            cmds = [(nm, [x.replace("\r", "") for x in a]) for nm, a in cmds]
        if cmds != base_cmds:
            raise common.HarnessFault(f"layout variant changes the command sequence [{label}]")
        p, e = page_of(text, cfg=cfg)
        if p is None:
            viol.append((label, f"error: variant is rejected: {e}   [{label}]", text, crlf))
        elif (norm_crlf(p) != norm_crlf(base)) if crlf else (p != base):
            viol.append((label, f"differs: output changes under a token-preserving edit   [{label}]", text, crlf))

    base_cmds = [(nm.lower(), a) for nm, a, _ in reflex.parse(base_text)]
    if base is None:
        return {"viol": [f"error: default layout rejected: {err}"], "n": 1, "obs": None, "nt": None, "cls": "error"}
    toks, kinds = cmakegen.flat_tokens(its, cmakegen.DEFAULT_LAYOUT)
    fillers = (FILL + ["<none>"]) if mode in ("full", "pairs") else LIGHT
    gv = list(gap_variants(toks, kinds, fillers, only_between=(mode == "light")))
    for g, f, gtext in gv:
        cmp(f"gap {g} ({kinds[g]}->{kinds[g + 1]}) filler {f!r}", render_with_base(its, gaps={g: gtext}))
    # head / tail
    for f in [x for x in fillers if x != "<none>"]:
        trail = "" if f[-1] in " \t\n" else "\n"
        cmp(f"head filler {f!r}", render_with_base(its, {"head": f + trail}))
        if kinds and kinds[0] in ("doc", "moddoc") and f[-1] not in " \t\n":
            cmp(f"head filler {f!r} on the doccomment's line", render_with_base(its, {"head": f + " "}))
        cmp(f"tail filler {f!r}", render_with_base(its, {"tail": "\n" + f}))
        if f.endswith("\n"):
            cmp(f"tail filler {f[:-1]!r} at EOF", render_with_base(its, {"tail": "\n" + f[:-1]}))
    cmp("no final newline", render_with_base(its, {"tail": ""}))
    if mode != "light":
        for ind in INDENTS[1:]:
            cmp(f"doccomments re-indented by {ind!r}", render_with_base(its, {"doc_indent": ind}))
            cmp(f"doccomments and commands indented by {ind!r}",
                render_with_base(its, {"doc_indent": ind, "cmd_indent": ind, "head": ind}))
        for case in ("upper", "mixed"):
            cmp(f"command names in {case} case", render_with_base(cmakegen.items(evs, case)))
        # one doccomment re-indented / one command name respelled while everything else stays
        toks_ind = {ind: cmakegen.flat_tokens(its, dict(cmakegen.DEFAULT_LAYOUT, **dict(base_layout, doc_indent=ind)))[0] for ind in ("  ", "\t", "        ")}
        for i, kd in enumerate(kinds):
            if kd in ("doc", "moddoc"):
                for ind, ti in toks_ind.items():
                    if i == 0:
                        cmp(f"only doccomment at token {i} re-indented by {ind!r}", render_with_base(its, {"head": ind}, over={i: ti[i]}))
                    else:
                        g0 = cmakegen.default_gap(kinds[i - 1], kd, cmakegen.DEFAULT_LAYOUT)
                        cmp(f"only doccomment at token {i} re-indented by {ind!r}",
                            render_with_base(its, gaps={i - 1: g0 + ind}, over={i: ti[i]}))
            elif kd == "id":
                for sp in {toks[i].upper(), toks[i].lower(), cmakegen.case_of(toks[i].lower(), "mixed")} - {toks[i]}:
                    cmp(f"only command name at token {i} respelled {sp!r}", render_with_base(its, over={i: sp}))
        cmp("CRLF line endings", render_with_base(its, {"eol": "\r\n"}), crlf=True)
        cmp("arguments continued in column 0", render_with_base(its, {"arg_sep": "\n", "after_open": "\n", "before_close": "\n"}))
        cmp("arguments one per line with trailing comments", render_with_base(
            its, {"arg_sep": " # trailing\n    ", "after_open": "\n    ", "before_close": " # last\n"}))
    if mode == "pairs":
        light = [(g, f, t) for g, f, t in gv if f in LIGHT]
        for (g1, f1, t1), (g2, f2, t2) in itertools.combinations(light, 2):
            if g1 != g2:
                cmp(f"gaps {g1},{g2} fillers {f1!r},{f2!r}", render_with_base(its, gaps={g1: t1, g2: t2}))
        for g, f, gtext in light:
            cmp(f"CRLF + gap {g} filler {f!r}", render_with_base(its, {"eol": "\r\n"}, gaps={g: gtext}), crlf=True)
            cmp(f"upper case + gap {g} filler {f!r}", render_with_base(cmakegen.items(evs, "upper"), gaps={g: gtext}))
    msgs = [v[1] for v in viol[:5]]
    from .. import rstobs
    nt = len(rstobs.Page(base).entries()) > 0
    return {"viol": msgs, "n": n, "obs": common.digest(sorted(digs)), "nt": common.digest(events) if nt else None,
            "cls": (viol[0][1].split(":")[0] + " " + viol[0][0].split(" filler ")[-1][:30]) if viol else None,
            "variants": len(digs),
            "case": {"default_text": base_text, "variant_text": viol[0][2], "crlf": viol[0][3], "label": viol[0][0],
                     "cfg": [list(x) for x in cfg] if cfg else None}
            if viol else None}


def check_shadow(job):
    """the module with every doccomment turned into an ordinary bracket comment of the same shape (so every command
    keeps its line and column) is documented, then the documented original, then the first again, in one process: a
    command's position in *another* file is layout, too"""
    events = job[0]
    its = cmakegen.items(cmakegen.close(events))
    plain = [("comment", cmakegen.render_doc(it[1], None).replace("#[[[", "#[[ ", 1)) if it[0] == "doc" and it[2] is None else it
             for it in its]
    a, b = cmakegen.render(its), cmakegen.render(plain)
    if [(n.lower(), x, l) for n, x, l in reflex.parse(a)] != [(n.lower(), x, l) for n, x, l in reflex.parse(b)]:
        raise common.HarnessFault("shadow module does not keep the commands in place")
    p1, e1 = page_of(b)
    pa, ea = page_of(a)
    p2, e2 = page_of(b)
    msgs = []
    if p1 is None or pa is None:
        msgs.append(f"error: module rejected: {e1 or ea}")
    elif p1 != p2:
        msgs.append("differs: the page of a module changes once a sibling with the same layout (its commands documented, at "
                    "the same lines and columns) has been documented in the same process")
    return {"viol": msgs, "n": 3, "obs": common.digest([p1, pa]), "nt": common.digest(events), "cls": "differs shadow" if msgs else None,
            "case": {"shadow": events}}


def run(ctx):
    quick = ctx.tier == "quick"
    n_full, n_light = (1, 2) if quick else (2, 3)
    en = functools.partial(statespace.enabled, maxnest=3)
    hs = modsearch.all_histories(n_light, en)
    jobs = [(KITCHEN, "pairs" if not quick else "full", p, 48) for p in range(48)]
    # doccomments written without '#' leaders whose lines carry their own indentation (literal block, directive body)
    jobs += [(LEADERLESS, "full", p, 4, (("leader", False),)) for p in range(4)]
    jobs += [(ALL_INDENTED, "full", p, 4) for p in range(4)]
    jobs += [(TWINS, "full", p, 16) for p in range(16)]
    jobs += [(MULTILINE, "full", p, 4, (("cmd_indent", "        "),)) for p in range(4)]
    jobs += [(MULTILINE, "full", p, 4) for p in range(4)]
    jobs += [(ABUT, "full", p, 4) for p in range(4)]
    jobs += [(NOKW, "full", p, 8) for p in range(8)]
    jobs += [(UNDOC_THEN_DOC, "full", p, 8) for p in range(8)]
    jobs += [([], "full"), ([{"k": "comment", "shape": 0}], "full"), ([{"k": "set", "doc": 0}], "full")]      # modules without any entry
    jobs += [(EMPTYDOCS, "full", p, 8, (), cfg) for p in range(8) for cfg in (None, ALL_OFF, ALL_OFF[:2])]
    validate_abutting()
    for h in hs:
        if len(h) <= n_full:
            jobs.append((h, "pairs" if (not quick and len(h) <= 1) else "full"))
        else:
            jobs.append((h, "light"))
    ctx.cov["bounds"] = {"fillers": FILL, "light_fillers": LIGHT, "indents": INDENTS, "full_up_to_events": n_full,
                         "light_up_to_events": n_light, "modules": len(jobs)}
    results = ctx.sweep(check_module, jobs, space="modules x layout variants", selftest=5, chunk=4)
    sh = [(KITCHEN,), (TWINS,), (ALL_INDENTED,), (MULTILINE,)] + [(h,) for h in hs]
    ctx.sweep(check_shadow, sh, space="same-layout sibling documented in between", selftest=3, chunk=1)
    ctx.cov["distinct_variant_texts"] = sum(r.get("variants", 0) for r in results)
    ctx.assumptions += ["every filler is padded so that the token sequence is preserved by construction",
                        "between a command name and its '(' only spaces/tabs are inserted (CMake requires it)"]
    return RULE


def replay(case):
    if "shadow" in case:
        return common.in_fork(check_shadow, (case["shadow"],))["viol"]
    cfg = [tuple(x) for x in case["cfg"]] if case.get("cfg") else None
    base, e0 = page_of(case["default_text"], cfg=cfg)
    p, e = page_of(case["variant_text"], cfg=cfg)
    if p is None:
        return [f"error: variant is rejected: {e}   [{case['label']}]"]
    if (norm_crlf(p) != norm_crlf(base)) if case["crlf"] else (p != base):
        return [f"differs: output changes under a token-preserving edit   [{case['label']}]"]
    return []
