"""C02 - exactly one entry per documentable command, in source order (explicit-state search)."""
import functools

from .. import common, cmakegen, pipeline, refmodel, rstobs, statespace

ID = "C02"
RULE = ("explicit-state BFS over event histories of the abstract-module alphabet (mc/statespace.py); a state is the "
        "history, canonical key = (stack of open block kinds, kind/doc of last event, abstraction of the listener's "
        "four state fields); every transition runs the real Documenter on the balanced closure of the history and "
        "compares the observed entry list with the reference list; plus a no-dedup sweep of every well-formed history "
        "up to a smaller depth.  non-trivial = the expected entry list is non-empty; distinct = by digest of the "
        "expected list")

MAXNEST = {"quick": 2, "thorough": 3}
DEPTH = {"quick": 5, "thorough": 8}
SWEEP = {"quick": 2, "thorough": 3}


from ..modsearch import check_module as check_history  # noqa: E402


def _transition(h2, depth, case):
    """one execution of the implementation (in its own forked child): closed history -> page, open history -> listener"""
    msgs, dg, nt = check_history(h2, None, case)
    impl = pipeline.impl_abstraction(cmakegen.render(cmakegen.items(h2, case))) if len(h2) < depth else None
    return msgs, dg, nt, impl


def expand(history, maxnest, depth, case):
    out = []
    for ev in statespace.enabled(history, maxnest):
        h2 = history + [ev]
        msgs, dg, nt, impl = _transition(h2, depth, case)
        key = None
        if len(h2) < depth:
            key = (statespace.model_key(h2), impl)
        out.append({"ev": ev, "key": key, "viol": msgs, "obs": dg, "nt": dg if nt else None,
                    "cls": msgs[0].split(":")[0] if msgs else None})
    return out


def sweep_one(job, case):
    h, trailing = job
    msgs, dg, nt = check_history(h, None, case, trailing=trailing)
    return {"viol": msgs, "obs": dg, "nt": dg if nt else None, "cls": msgs[0].split(":")[0] if msgs else None}


def all_histories(n, maxnest):
    level = [[]]
    out = []
    for _ in range(n):
        nxt = []
        for h in level:
            for ev in statespace.enabled(h, maxnest):
                nxt.append(h + [ev])
        out += nxt
        level = nxt
    return out


def run(ctx):
    t = ctx.tier
    cases = common.rot(["lower", "upper", "mixed"])
    ctx.cov["bounds"] = {"max_nesting": MAXNEST[t], "max_history": DEPTH[t], "no_dedup_sweep_depth": SWEEP[t],
                         "alphabet_size_at_root": len(statespace.enabled([], MAXNEST[t])),
                         "command_case_bfs": cases[0], "command_case_sweep": cases[1]}
    ctx.bfs(functools.partial(expand, maxnest=MAXNEST[t], depth=DEPTH[t], case=cases[0]), (statespace.model_key([]), None), DEPTH[t], dedup=True, space="bfs")
    hs = all_histories(SWEEP[t], MAXNEST[t] + 1)
    ctx.sweep(functools.partial(sweep_one, case=cases[1]), [(h, t) for h in hs for t in (True, False)],
              space="no-dedup sweep (with and without a trailing dangling doccomment)")
    ctx.assumptions += ["documented implementing definitions are outside the domain (claimed by two clauses of the statement)",
                        "generic command names are compared in lower case (C04 requires case-independent output)",
                        "wording of notes/warnings is matched by the keywords the statement names"]
    return RULE


def replay(case):
    if isinstance(case, list) and len(case) == 2 and isinstance(case[1], bool):
        case = case[0]
    events = case if isinstance(case, list) else case["events"]
    msgs = []
    for cs in ("lower", "upper", "mixed"):
        m, _, _ = check_history(events, None, cs, trailing=False)
        msgs += m
        if m:
            break
    return msgs
