"""C02 - exactly one entry per documentable command, in source order (explicit-state search)."""
import functools

from .. import common, cmakegen, modsearch, pipeline, refmodel, rstobs, statespace

ID = "C02"
RULE = ("explicit-state BFS over event histories of the abstract-module alphabet (mc/statespace.py); a state is the "
        "history, canonical key = (stack of open block kinds, kind/doc of last event, abstraction of the listener's "
        "four state fields); every transition runs the real Documenter on the balanced closure of the history and "
        "compares the observed entry list with the reference list; plus a no-dedup sweep of every well-formed history "
        "up to a smaller depth.  non-trivial = the expected entry list is non-empty; distinct = by digest of the "
        "expected list")

MAXNEST = {"quick": 2, "thorough": 3}
DEPTH = {"quick": 5, "thorough": 8}
SWEEP = {"quick": 2, "thorough": 3}


from ..modsearch import check_module as check_history  # noqa: E402


def _transition(h2, depth, case):
    """one execution of the implementation (in its own forked child): closed history -> page, open history -> listener"""
    msgs, dg, nt = check_history(h2, None, case)
    impl = pipeline.impl_abstraction(cmakegen.render(cmakegen.items(h2, case))) if len(h2) < depth else None
    return msgs, dg, nt, impl


def expand(history, maxnest, depth, case):
    out = []
    for ev in statespace.enabled(history, maxnest):
        h2 = history + [ev]
        msgs, dg, nt, impl = _transition(h2, depth, case)
        key = None
        if len(h2) < depth:
            key = (statespace.model_key(h2), impl)
        out.append({"ev": ev, "key": key, "viol": msgs, "obs": dg, "nt": dg if nt else None,
                    "cls": msgs[0].split(":")[0] if msgs else None})
    return out


def sweep_one(job, case):
    h, trailing = job
    msgs, dg, nt = check_history(h, None, case, trailing=trailing)
    return {"viol": msgs, "obs": dg, "nt": dg if nt else None, "cls": msgs[0].split(":")[0] if msgs else None}


SHAPES = [
    {"k": "add_test", "args": ["smoke", "prog", "--flag"]},                      # the short signature, no NAME keyword
    {"k": "add_test", "args": ["smoke", "${CMAKE_COMMAND}", "--version"]},
    {"k": "add_test", "args": ["COMMAND", "prog", "NAME", "late_name"]},
    {"k": "add_test", "args": ["NAME", "t", "COMMAND", "prog", '"two  blanks"', "CONFIGURATIONS", "Debug"]},
    {"k": "generic", "cmd": "message", "args": ["STATUS", '"name    value"']},   # white space inside arguments is text
    {"k": "generic", "cmd": "string", "args": ["REPLACE", '"  "', '" "', "out", '"${in}"']},
    {"k": "generic", "cmd": "message", "args": ['"tab\there"', '" lead"', '"trail "']},
    {"k": "generic", "cmd": "list", "args": ["APPEND", "L", "a;b", "[[x  y]]", "c\\ \\ d"]},
    {"k": "option", "help": '"two  blanks  help"', "default": "ON"},
    {"k": "set", "values": ["ON", "CACHE", "BOOL", '"help text"']},             # a cache entry is a set() like any other
    {"k": "set", "values": ["v", "CACHE", "STRING", '"doc"', "FORCE"]},
    {"k": "set", "values": ["${x}", "PARENT_SCOPE"]},
    {"k": "set", "name": '"${PN}_VERSION"', "values": ["1.0"]},                  # variable names written as quoted / bracket arguments
    {"k": "set", "name": "[[BRNAME]]", "values": ["1"]},
    {"k": "set", "name": '"quoted plain"', "values": ["1.0"]},
    {"k": "set", "name": "A@B", "values": ["1"]},
    {"k": "set", "name": "ns::v", "values": ["<x>"]},
    {"k": "option", "name": '"${PN}_ENABLE"', "help": '"h"', "default": "ON"},
    {"k": "function", "params": ["a", "b", "c", "d", "e"]},
    {"k": "function", "params": []},
    {"k": "macro", "params": []},
    {"k": "ct_add_test", "expectfail": 1},
    {"k": "cpp_class", "bases": ["B1", "B2", "B3"]},
]


ODD_COMMENTS = [      # line comments holding characters that Python's str.splitlines() takes for line breaks, then code-like text
    "# kept for reference:\u2028option(OLD_BACKEND \"h\" ON)", "# ---- helpers ----\x0cfunction(page_two)",
    "# a\x0bset(V 1)\x1c) b\x85( c\u2029endfunction()", "#[[ bracket\u2028option(IN_BRACKET \"h\" ON) ]]"]


def extra_jobs():
    """annotation comments with odd characters at four positions; declarations in an inner class that name the outer class"""
    jobs = []
    for t in ODD_COMMENTS:
        c = {"k": "comment", "text": t}
        for pos in ([c, {"k": "set", "doc": 1}], [{"k": "function", "doc": 1, "params": []}, c, {"k": "option", "doc": 0}],
                    [{"k": "generic", "doc": 1}, c, {"k": "generic", "doc": 1}], [{"k": "cpp_class", "doc": 1}, c, {"k": "cpp_attr", "doc": 1}],
                    [{"k": "option", "doc": 0}, c]):
            jobs.append(([dict(e) for e in pos], False))
    for doc in (1, 0):
        outer, inner = {"k": "cpp_class", "doc": 1}, {"k": "cpp_class", "doc": doc}
        mem = {"k": "cpp_member", "doc": doc, "types": ["int"], "params": ["a"], "cls_up": 1}
        att = {"k": "cpp_attr", "doc": doc, "default": "v", "cls_up": 1}
        ctor = {"k": "cpp_constructor", "doc": doc, "types": [], "params": [], "cls_up": 1}
        cl = {"k": "close"}
        for body in ([att], [mem], [ctor], [att, mem, cl, ctor], [dict(att, cls_up=0), att]):
            jobs.append(([dict(outer), dict(inner)] + [dict(e) for e in body], False))
            jobs.append(([dict(outer), dict(outer, doc=doc), dict(inner)] + [dict(e, cls_up=2) if "cls_up" in e else dict(e) for e in body], False))
    return jobs


def shape_jobs():
    """argument shapes of single commands the BFS alphabet has one spelling of, documented and not, at five positions"""
    jobs = []
    for sh in SHAPES:
        for doc in (1, 0):
            ev = dict(sh, doc=doc)
            tail = [{"k": "close"}] if ev["k"] in ("function", "macro", "ct_add_test", "cpp_class") else []
            for pos in ([ev] + tail,
                        [{"k": "function", "doc": 1, "params": []}, ev] + tail,
                        [{"k": "if", "doc": 0}, ev] + tail,
                        [{"k": "cpp_class", "doc": 1}, {"k": "close"}, ev] + tail + [{"k": "set", "doc": 1}],
                        [{"k": "generic", "doc": 1}, ev] + tail + [{"k": "generic", "doc": 1}]):
                jobs.append((pos, False))
    return jobs


def bystander_jobs():
    """a declaration (test, section, member, constructor) whose implementing definition carries a doccomment of its own,
    followed by by-standers.  The documented implementing definition itself is outside C02's domain (see assumptions);
    the commands AFTER it are not: each still gets exactly one entry, in order."""
    cl = {"k": "close"}
    decls = [[{"k": "ct_add_test", "doc": d, "impldoc": ["Impl doc."]}, cl] for d in (1, 0)]
    decls += [[{"k": "ct_add_test", "doc": 1}, {"k": "ct_add_section", "doc": d, "impldoc": ["Impl doc."]}, cl, cl] for d in (1, 0)]
    decls += [[{"k": "cpp_class", "doc": 1}, {"k": m, "doc": d, "impldoc": ["Impl doc."], "types": ["int"], "params": ["a"]}, cl, cl]
              for d in (1, 0) for m in ("cpp_member", "cpp_constructor")]
    tails = [[{"k": "function", "doc": 0, "params": ["p"]}, cl, {"k": "macro", "doc": 0}, cl, {"k": "function", "doc": 1}],
             [{"k": "macro", "doc": 0, "params": ["p"]}, cl, {"k": "function", "doc": 0}],
             [{"k": "set", "doc": 1}, {"k": "function", "doc": 0, "params": ["p", "q"]}, cl, {"k": "option", "doc": 1}],
             [{"k": "if", "doc": 0}, {"k": "function", "doc": 0}, cl, cl, {"k": "macro", "doc": 1}]]
    return [[dict(e) for e in d + t] for d in decls for t in tails]


def sweep_bystanders(h, case):
    text, r = modsearch.run_module(h, None, case)
    exp = refmodel.expected(h, None)
    if r["page"] is None:
        msgs = [f"error: pipeline failed on a well-formed module: {r['error']}"]
    else:
        obs = [rstobs.abstract_entry(b) for b in rstobs.Page(r["page"]).entries()]
        # the entry of the documented implementing definition itself (signature "${name}(...)") is not judged here
        obs = [o for o in obs if "${" not in str(o.get("sig", ""))]
        msgs = [m for m in refmodel.compare(exp, obs) if m.split(":")[0] in ("entries", "signature", "order")]
    dg = common.digest([h, msgs])
    return {"viol": msgs, "obs": dg, "nt": dg, "cls": ("bystanders " + msgs[0].split(":")[0]) if msgs else None}


def all_histories(n, maxnest):
    level = [[]]
    out = []
    for _ in range(n):
        nxt = []
        for h in level:
            for ev in statespace.enabled(h, maxnest):
                nxt.append(h + [ev])
        out += nxt
        level = nxt
    return out


def run(ctx):
    t = ctx.tier
    cases = common.rot(["lower", "upper", "mixed"])
    ctx.cov["bounds"] = {"max_nesting": MAXNEST[t], "max_history": DEPTH[t], "no_dedup_sweep_depth": SWEEP[t],
                         "alphabet_size_at_root": len(statespace.enabled([], MAXNEST[t])),
                         "command_case_bfs": cases[0], "command_case_sweep": cases[1]}
    ctx.bfs(functools.partial(expand, maxnest=MAXNEST[t], depth=DEPTH[t], case=cases[0]), (statespace.model_key([]), None), DEPTH[t], dedup=True, space="bfs")
    hs = all_histories(SWEEP[t], MAXNEST[t] + 1)
    ctx.sweep(functools.partial(sweep_one, case=cases[1]), [(h, t) for h in hs for t in (True, False)],
              space="no-dedup sweep (with and without a trailing dangling doccomment)")
    ctx.sweep(functools.partial(sweep_one, case=cases[2]), shape_jobs(), space="argument shapes x positions")
    ctx.sweep(functools.partial(sweep_one, case=cases[2]), extra_jobs(), space="odd comment characters; declarations naming an outer class")
    ctx.sweep(functools.partial(sweep_bystanders, case=cases[0]), bystander_jobs(),
              space="by-standers after a declaration whose implementing definition is documented (judged on the by-standers)")
    ctx.assumptions += ["documented implementing definitions are outside the domain (claimed by two clauses of the statement)",
                        "generic command names are compared in lower case (C04 requires case-independent output)",
                        "wording of notes/warnings is matched by the keywords the statement names"]
    return RULE


def replay(case):
    if isinstance(case, list) and len(case) == 2 and isinstance(case[1], bool):
        case = case[0]
    events = case if isinstance(case, list) else case["events"]
    msgs = []
    if any("impldoc" in ev for ev in events):
        return sweep_bystanders(events, "lower")["viol"]
    for cs in ("lower", "upper", "mixed"):
        m, _, _ = check_history(events, None, cs, trailing=False)
        msgs += m
        if m:
            break
    return msgs
