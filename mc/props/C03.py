"""C03 - function and macro signatures mirror the definition (explicit-state search x configurations)."""
import functools

from .. import common, cmakegen, modsearch, statespace
from ..statespace import context

ID = "C03"
RULE = ("explicit-state BFS over histories of definitions (0-3 parameters in identifier/quoted/reference/bracket "
        "form, docs with/without/near the trigger), closers, cmake_parse_arguments calls, if/foreach, classes with "
        "members and tests (foreign stack frames); every transition runs the real pipeline under the default "
        "configuration, and short histories under every (trigger x strip pattern) configuration; oracle = signature "
        "computed by the reference model.  non-trivial = >=1 definition entry expected; distinct by expected "
        "signature list x configuration")

TRIGGERS = [":keyword", ":param **kwargs:", "KW!", "\n:keyword"]      # the last one: a ':keyword' field that begins a line
STRIPS = ["", "^_[a-zA-Z]*_", "^_", "x", r"\W+", "^[^_]*_", "^_+|_+$", "^_pfx_|_(arg|in)$", '"']   # the last two: an anchored and an unanchored alternative   # the last two can match across a separator if parameters were joined
DOCS = [None, ["Plain text only."], ["Takes :keyword foo: a thing."], ["Doc.", ":param **kwargs: more"],
        ["Shout KW! here"], ["near miss :Keyword and kw! and :param *kwargs:"],
        ["The :keywords: follow, KW!x too, and :param **kwargs:x"],
        ["Doc.", ":keyword OPT: a field on a line of its own"]]     # the trigger directly followed by a word character
PARAMS = [[], ["_pfx_name"], ['"q  p\tt"', "${ref}", "[[br x]]"], ["x_arg", "_x", "_both_"],
          ['"**kwargs"', "target"], ["first", '"**kwargs"'],
          ["result", "a", "b", "result"], ["_", "_", "value", '"x y"', '"x y"']]     # the same parameter text written more than once     # a parameter that reads '**kwargs' once its quotes are stripped   # two spaces and a tab inside quotes


def enabled(events, maxnest):
    st, kinds, inner = context(events)
    out = []
    if len(st) < maxnest:
        for d in range(len(DOCS)):
            for p in (PARAMS if d in (0, 2) else PARAMS[1:2]):
                ev = {"k": "function", "doc": 0 if DOCS[d] is None else 1, "params": p, "nameprefix": "_fx_fn"}
                if DOCS[d]:
                    ev["doctext"] = DOCS[d]
                out.append(ev)
        for d in range(len(DOCS)):
            for p in ((PARAMS[3], PARAMS[0]) if d in (0, 2) else (PARAMS[3],)):
                ev = {"k": "macro", "doc": 0 if DOCS[d] is None else 1, "params": p, "nameprefix": "_mx_mac"}
                if DOCS[d]:
                    ev["doctext"] = DOCS[d]
                out.append(ev)
        # field-for-field equal definitions (the 'define it one way or the other' idiom)
        out += [{"k": "function", "doc": 1, "name": "twin_fn", "doctext": ["Twin."], "params": ["t"]},
                {"k": "macro", "doc": 0, "name": "twin_mac", "params": ["t"]}]
        # a keyword-taking macro/function with a fixed name, so that later bodies can invoke it
        out += [{"k": "macro", "doc": 1, "name": "kw_mac", "doctext": ["Takes :keyword foo: a thing."], "params": ["t"]}]
        out += [{"k": "if", "doc": 0}, {"k": "foreach", "doc": 0}, {"k": "cpp_class", "doc": 1},
                {"k": "ct_add_test", "doc": 0}]
        if inner == "cpp_class":
            out += [{"k": "cpp_member", "doc": 1, "types": ["int"], "params": ["_m_a"]}]
        if inner in ("ct_add_test", "ct_add_section"):
            out += [{"k": "ct_add_section", "doc": 0}]
    out += [{"k": "cmake_parse_arguments"}, {"k": "set", "doc": 0}]
    if any(k in ("function", "macro") for k in kinds):
        out += [{"k": "cmake_parse_arguments", "argv": 1}]
    # invocations of the module's own definitions (by their fixed names) are ordinary commands
    names = {ev.get("name") for ev in events}
    out += [{"k": "generic", "doc": 0, "cmd": n, "args": ["1"]} for n in ("kw_mac", "twin_fn") if n in names]
    if st:
        out.append({"k": "close"})
        if st[-1][0] in ("function", "macro"):
            out.append({"k": "close", "doc": 1})     # a doccomment directly before endfunction()/endmacro()
    return out


def configs(all_of_them, some=False):
    if some:    # the configurations whose patterns differ per kind, plus one non-default trigger
        return [{}, {"function_parameter_name_strip_regex": "^_"}, {"function_parameter_name_strip_regex": "^_[a-zA-Z]*_", "macro_parameter_name_strip_regex": "x"},
                {"macro_parameter_name_strip_regex": "^_", "member_parameter_name_strip_regex": "^_m_"},
                {"kwargs_doc_trigger_string": "KW!", "function_parameter_name_strip_regex": r"\W+",
                 "macro_parameter_name_strip_regex": r"\W+", "member_parameter_name_strip_regex": r"\W+"}]
    if not all_of_them:
        return [{}]
    out = []
    # every strip pattern under the default trigger, every trigger under the first two patterns (the two options act
    # on different parts of a signature)
    for t, s in [(TRIGGERS[0], s) for s in STRIPS] + [(t, s) for t in TRIGGERS[1:] for s in STRIPS[:2]]:
        out.append({"kwargs_doc_trigger_string": t, "function_parameter_name_strip_regex": s,
                    "macro_parameter_name_strip_regex": s, "member_parameter_name_strip_regex": s})
    # patterns differing per kind (a value must only act on its own kind); one kind's pattern set, the others left empty
    out.append({"function_parameter_name_strip_regex": "^_"})
    out.append({"macro_parameter_name_strip_regex": "_$", "function_parameter_name_strip_regex": ""})
    out.append({"member_parameter_name_strip_regex": "^_"})
    out.append({"function_parameter_name_strip_regex": "^_[a-zA-Z]*_", "macro_parameter_name_strip_regex": "x"})
    out.append({"macro_parameter_name_strip_regex": "^_", "member_parameter_name_strip_regex": "^_m_"})
    return out


ONLY = ("signature", "entries", "kind", "error", "members")


def check(events, cfgs, case):
    msgs, dgs, nt = [], [], False
    for cfg in cfgs:
        m, dg, n = modsearch.check_module(events, cfg, case, only=ONLY)
        if m and not msgs:
            msgs = [f"{x}   [config {cfg}]" for x in m]
        dgs.append(dg)
        nt = nt or n
    return msgs, common.digest(dgs), nt, len(cfgs)


def _transition(h2, depth, cfgdepth, case):
    msgs, dg, nt, n = check(h2, configs(len(h2) <= cfgdepth - 1, some=(len(h2) == cfgdepth)), case)
    return msgs, dg, nt, n, (modsearch.impl_key(h2, case) if len(h2) < depth else None)


def expand(history, maxnest, depth, cfgdepth, case):
    out = []
    for ev in enabled(history, maxnest):
        h2 = history + [ev]
        msgs, dg, nt, n, impl = _transition(h2, depth, cfgdepth, case)
        key = None
        if len(h2) < depth:
            key = (statespace.model_key(h2), impl)
        r = modsearch.result(ev, key, msgs, dg, nt)
        r["n"] = n
        out.append(r)
    return out


def sweep_case(h, case):
    msgs, dg, nt, n = check(h, configs(False, some=True), case)
    return {"viol": msgs, "obs": dg, "nt": dg if nt else None, "n": n, "cls": msgs[0].split(":")[0] if msgs else None}


CLI_TRIGGERS = [":keyword ", " KW!", "kw arg", "\tKW", ":keyword"]
CLI_DOCS = [":keywords: plural", "Shout KW!", "takes :keyword x: one", "a kw arg here", "ends with :keyword", "a kwarg", "\tKW"]


def check_cli(job):
    """the trigger string as the settings file gives it (leading/trailing blanks included) through the real command line"""
    from .. import fsbox, rstobs
    import yaml
    trigger = job
    box = fsbox.Box("c03")
    msgs = []
    try:
        text = ""
        for n, d in enumerate(CLI_DOCS):
            text += f"#[[[\n# {d}\n#]]\nfunction(cli_fn_{n} a)\nendfunction()\n#[[[\n# {d}\n#]]\nmacro(cli_mac_{n} b)\nendmacro()\n"
        box.build({"in/m.cmake": text})
        with open(box.path("work", "s.yaml"), "w") as f:
            yaml.safe_dump({"input": {"kwargs_doc_trigger_string": trigger}}, f)
        r = box.run(["-s", "s.yaml", "-o", "out", "in"])
        if r["status"] != 0:
            msgs.append(f"error: run failed: {r['exc'] or r['stdout'][-200:]}")
        else:
            page = box.page("work/out", "m.rst")
            sigs = {b.arg.split("(")[0].strip(): b.arg for b in rstobs.Page(page).entries()}
            for n, d in enumerate(CLI_DOCS):
                want = trigger in d
                for nm in (f"cli_fn_{n}", f"cli_mac_{n}"):
                    got = "**kwargs" in sigs.get(nm, "")
                    if nm not in sigs or got != want:
                        msgs.append(f"signature: trigger {trigger!r} (settings file), doc {d!r}: {nm} is shown as {sigs.get(nm)!r}, "
                                    f"'**kwargs' expected: {want}")
    finally:
        box.cleanup()
    return {"viol": msgs[:4], "obs": common.digest([trigger, msgs]), "nt": common.digest(trigger), "n": 1,
            "cls": "signature cli" if msgs else None, "case": {"cli_trigger": trigger}}


CLI_STRIPS = ["in v", '^"in ', "a b c", " "]


def check_cli_strip(job):
    """a strip pattern that contains blanks, given in a settings file: the pattern applied is the pattern configured"""
    from .. import fsbox, rstobs
    import re as _re
    import yaml
    pat = job
    box = fsbox.Box("c03s")
    msgs = []
    params = ['"in value"', '"in variable"', "out_name", '"a b c d"', "[[in v]]"]
    try:
        box.build({"in/m.cmake": "#[[[\n# Doc.\n#]]\nfunction(copy_value " + " ".join(params) + ")\nendfunction()\n"
                                 "macro(copy_mac " + " ".join(params) + ")\nendmacro()\n"})
        with open(box.path("work", "s.yaml"), "w") as f:
            yaml.safe_dump({"input": {"function_parameter_name_strip_regex": pat, "macro_parameter_name_strip_regex": pat}}, f)
        r = box.run(["-s", "s.yaml", "-o", "out", "in"])
        if r["status"] != 0:
            msgs.append(f"error: run failed: {r['exc'] or r['stdout'][-200:]}")
        else:
            page = box.page("work/out", "m.rst")
            want = " ".join(_re.sub(pat, "", p) for p in params)
            for nm in ("copy_value", "copy_mac"):
                sig = [b.arg for b in rstobs.Page(page).entries() if b.arg.startswith(nm + "(")]
                if sig != [f"{nm}({want})"]:
                    msgs.append(f"signature: strip pattern {pat!r} (settings file): {nm} is shown as {sig}, expected {nm}({want})")
    finally:
        box.cleanup()
    return {"viol": msgs[:3], "obs": common.digest([pat, msgs]), "nt": common.digest(pat), "n": 1, "cls": "signature cli-strip" if msgs else None,
            "case": {"cli_strip": pat}}


def run(ctx):
    quick = ctx.tier == "quick"
    maxnest, depth, cfgdepth = (3, 5, 3) if quick else (4, 8, 3)
    case = common.rot(["lower", "upper", "mixed"])[0]
    ctx.cov["bounds"] = {"max_definition_nesting": maxnest, "max_history": depth,
                         "all_configurations_up_to_history": cfgdepth - 1, "four_configurations_at_history": cfgdepth, "configurations": len(configs(True)),
                         "triggers": TRIGGERS, "strip_patterns": STRIPS, "command_case": case}
    ctx.bfs(functools.partial(expand, maxnest=maxnest, depth=depth, cfgdepth=cfgdepth, case=case),
            (statespace.model_key([]), None), depth, space="bfs")
    others = [c for c in ("lower", "upper", "mixed") if c != case]
    hs = modsearch.all_histories(2, functools.partial(enabled, maxnest=maxnest))
    for oc in others:
        ctx.sweep(functools.partial(sweep_case, case=oc), hs, space=f"histories <=2 in {oc} case, four configurations")
    ctx.sweep(check_cli, CLI_TRIGGERS, space="trigger strings with blanks through the settings file and the command line", selftest=1)
    ctx.sweep(check_cli_strip, CLI_STRIPS, space="strip patterns with blanks through the settings file", selftest=1)
    ctx.assumptions += ["only signature/arity/kind messages are judged here (doc text is C01's, classes C09's)"]
    return RULE


def replay(case):
    if isinstance(case, dict) and "cli_strip" in case:
        return check_cli_strip(case["cli_strip"])["viol"]
    if isinstance(case, dict) and "cli_trigger" in case:
        return check_cli(case["cli_trigger"])["viol"]
    events = case if isinstance(case, list) else case["events"]
    for cs in ("lower", "upper", "mixed"):      # the search used a seed-rotated command-name case
        msgs, _, _, _ = check(events, configs(True), cs)
        if msgs:
            return msgs
    return []
