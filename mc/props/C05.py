"""C05 - every valid CMake file is accepted, with CMake's argument boundaries (grammar-driven, bounded-exhaustive)."""
import functools
import glob
import itertools
import json
import os
import subprocess

from .. import common, pipeline, reflex

ID = "C05"
RULE = ("(a) every command with <=K arguments over an alphabet of 58 argument lexemes (one per lexer shortcut x special "
        "character, in unquoted/quoted/bracket/parenthesised form) under each of 5 separators and 6 command names, "
        "(b) every two-command file with each of 24 comment shapes between/around the commands, (c) the *.cmake files "
        "shipped with CMake 3.25 (a finite given set).  Oracle: Documenter.process() completes and the public parse "
        "tree's command invocations equal, name by name and argument by argument, the reference tokenizer written from "
        "cmake-language(7), which is itself validated against CMake's own lexer (cmake --trace-format=json-v1) on the "
        "generated files.  non-trivial = >=1 argument or comment; distinct by source text")

UNQ = ["a", "a1_", "-Dx=y", "a;b", "a\;b", "a\\ b", "\\#", "\\(", "\\\"", "\\\\", "\\t\\n\\r", "${v}", "${v}/x", "$ENV{H}",
       "@v@", "<t>", "$<g:e>", "a$b", "[x]", "x[1]", "]]", "[", "a=b", "ü",
       # characters that Python's str.splitlines()/isspace() treat as separators but CMake as ordinary text
       "a\x0cb", "a\u2028b", "a\x85b", "a\x0bb", "a\xa0b", "*values", "x**2", "out[", "a|b+c?", "^x$",
       # characters for which str.isdigit()/isnumeric() are true but int() fails or means something else
       "\u0130stanbul", "\u212a", "\u1e9e", "\ufb01le", "\u03a3\u03c2", "\u01c5",
       "\u00b2", "\u2460", "\u0663", "12", "007", "1e3", "-1", "+1", "0x1f", "\uff11", "\u00bd", "True", "None", "nan"]
CASEODD = ["\u0130stanbul", "\u212a", "\u1e9e", "\ufb01le", "\u03a3\u03c2", "\u01c5"]    # code points whose lower()/upper()/casefold() change length or script
NUMLIKE = ["\u00b2", "\u2460", "\u0663", "12", "007", "1e3", "-1", "+1", "0x1f", "\uff11", "\u00bd", "True", "None", "nan"]
QUO = ['"\u00b2"', '"\u2460\u2461"', '"12"', '"\n#[[[ usage\n#]]\n"', '"x\x0cy\u2029z"', '""', '"a b"', '"a#b"', '"a;b"', '"(x)"', '"[[x]]"', '"\\"q\\""', '"\\(x\\)"', '"l1\nl2"', '"c\\\nd"', '"ü✓"']
BRA = ["[[\n#[[[ usage\n]]", "[=[\n]=]", "[[\n]]", "[[a]]", "[[a;b]]", "[[a(b]]", '[[ "x ]]', "[=[a]]b]=]", "[==[\nx\n]==]", "[[#c]]"]
PAR = ["()", "(a)", "(a (b))", "((a) b)", "(a (b c))", "((a AND (b OR c)) OR NOT (d))"]
LEX = UNQ + QUO + BRA + PAR
CORE = ["a", "a\;b", "\\#", "${v}/x", "[x]", "]]", '""', '"a#b"', '"(x)"', '"c\\\nd"', "[[a(b]]", "[=[a]]b]=]", "()",
        "(a (b))", "ü"]
SEPS = [" ", "\n", "\t", " #c\n", " #[[c]] "]
NAMES = ["set", "message", "if", "My_Cmd1", "generic_command", "CMAKE_PARSE_ARGUMENTS"]
COMMENTS = [" ", "\n", "\n\n", " # c\n", "#\n", "#[\n", "#[=\n", "#[=x\n", "# #[[[ x\n", "#]]\n", "# set(A 1)\n",
            "#[[ b ]]", "#[[ #[[[ x ]]", "#[=[ ]] ]=]", "#[==[\nmulti\n]==]", "# café ✓\n", "#[[[x]]",
            "#[[[x]]\n#]]\n", "#[=[[x]=]", "#[[\n]]", "#[[]]", "# \"unterminated\n", "#(\n", "#\\q\n",
            "#[==[\n#[[[\n# doc\n#]]\nfunction(f)\nendfunction()\n]==]", "#[=[\n  #[[[ @module x\n]=]",
            "# \u0130stanbul \u212a \ufb01le\n", "#[[ \u0130 ]]",
            "# path C:\\tools\\\n", "#\\\n", "# ff\x0c set(Z 1)\n", "# ls\u2028 stray (\n", "#[[ nel\x85 ]]", "# vt\x0b\"\n"]


# ---------------------------------------------------------------- CMinx side

def impl_commands(text, tree=None):
    """(name, argument values) of every command_invocation of the public parse tree, in source order
    tree: a parse tree obtained elsewhere (the one a Documenter walked) instead of parsing `text` here"""
    from cminx.parser.CMakeParser import CMakeParser
    if tree is None:
        tree, parser = pipeline.parse_tree(text)
    out = []

    def arg_values(ctx, acc):
        for ch in ctx.getChildren():
            if isinstance(ch, CMakeParser.Single_argumentContext):
                # the value is derived from the argument's *text* (which lexer rule produced the token is not
                # observable: '[[a]]' ties between the unquoted and the bracket rule, with identical boundaries)
                t = ch.getText()
                m = reflex.BR_OPEN.match(t)
                if t.startswith('"'):
                    acc.append(reflex.value("quoted", t))
                elif m and t.endswith("]" + m.group(1) + "]") and len(t) >= 2 * len(m.group(0)):
                    acc.append(reflex.value("bracket", t))
                else:
                    acc.append(t)
            elif isinstance(ch, CMakeParser.Compound_argumentContext):
                acc.append("(")
                arg_values(ch, acc)
                acc.append(")")

    def walk(node):
        if isinstance(node, CMakeParser.Command_invocationContext):
            acc = []
            arg_values(node, acc)
            out.append((node.Identifier().getText(), acc))
            return
        for i in range(node.getChildCount()):
            ch = node.getChild(i)
            if hasattr(ch, "getChildCount"):
                walk(ch)

    walk(tree)
    return out


def judge_text(text, mtime=None):
    """messages for one file"""
    try:
        ref = [(n, a) for n, a, _ in reflex.parse(text)]
    except reflex.LexError as e:
        raise common.HarnessFault(f"generator produced text the reference rejects: {e}: {text[:200]!r}")
    msgs = []
    try:
        # (decoding, a byte order mark included, is the Documenter's business: the public parser gets the text without it)
        got = impl_commands(text[1:] if text.startswith("\ufeff") else text)
    except BaseException as e:
        if isinstance(e, (KeyboardInterrupt, MemoryError)):
            raise
        return [f"rejected: parser raised {type(e).__name__}: {str(e)[:120]}"], ref
    if got != ref:
        i = next((i for i, (a, b) in enumerate(itertools.zip_longest(got, ref)) if a != b), 0)
        msgs.append(f"boundaries: command {i}: CMinx sees {got[i] if i < len(got) else None!r}, "
                    f"CMake sees {ref[i] if i < len(ref) else None!r}")
        return msgs, ref
    r = pipeline.document_text(text, mtime=mtime)
    if r["page"] is None:
        msgs.append(f"rejected: Documenter.process() failed: {r['error'][:160]}")
    elif r.get("tree") is not None:
        # what the Documenter itself read and walked (its own decoding, caching, stream handling), not only what the
        # public parser makes of the text
        got = impl_commands(None, r["tree"])
        if got != ref:
            i = next((i for i, (a, b) in enumerate(itertools.zip_longest(got, ref)) if a != b), 0)
            msgs.append(f"boundaries: command {i}: the Documenter walked {got[i] if i < len(got) else None!r}, "
                        f"CMake sees {ref[i] if i < len(ref) else None!r}")
    return msgs, ref


def k23_repaired(text):
    """input-class 'repair' for K2/K3: respell every level-0 bracket comment that begins '#[[[' as '#[[ [' (the same
    CMake comment with one more space in its text)"""
    out, last = [], 0
    hit = False
    for k, a, b in reflex.scan(text):
        # a real doccomment closes with '#]]'; the K2/K3 input class is a bracket comment spelled '#[[[' that CMake
        # closes at a plain ']]'
        if k == "bracket_comment" and text.startswith("#[[[", a) and not text.endswith("#]]", a, b):
            out.append(text[last:a]); out.append("#[[ [" + text[a + 4:b]); last = b
            hit = True
    out.append(text[last:])
    return "".join(out), hit


def check_file(job):
    label, text = job
    msgs, ref = judge_text(text)
    known = None
    if msgs:
        rep, hit = k23_repaired(text)
        if hit and not judge_text(rep)[0]:
            inside = any(k == "bracket_comment" and text.startswith("#[[[", a) and not text.endswith("#]]", a, b)
                         and _depth_at(text, a) > 0 for k, a, b in reflex.scan(text))
            known = "K2" if inside else "K3"
    return {"viol": msgs, "obs": common.digest(ref), "nt": common.digest(text), "known": known, "n": 1,
            "cls": (msgs[0].split(":")[0] + (" generic_command" if "generic_command" in text else "")) if msgs else None,
            "ncmd": len(ref), "case": {"label": label, "text": text}}


def check_rewrite(job):
    """one path, written twice with different contents of the same size and the same modification time, documented after
    each write in one process: both views must be CMake's"""
    a, b = job
    m1, _ = judge_text(a, mtime=pipeline.FIXED_MTIME)
    m2, ref = judge_text(b, mtime=pipeline.FIXED_MTIME)
    msgs = [f"rewrite (first content): {m}" for m in m1] + [f"rewrite (second content, same size and mtime): {m}" for m in m2]
    return {"viol": msgs, "obs": common.digest(ref), "nt": common.digest([a, b]), "n": 2,
            "cls": "rewrite " + msgs[0].split(": ")[1].split(":")[0] if msgs else None,
            "case": {"label": "one path rewritten", "rewrite": [a, b]}}


def rewrite_pairs(cmds, per_len):
    """pairs of generated commands of equal byte length"""
    by = {}
    for c in cmds:
        by.setdefault(len(c.encode("utf-8")), []).append(c)
    out = []
    for n, lst in sorted(by.items()):
        step = max(1, len(lst) // per_len)
        pick = lst[::step][:per_len + 1]
        out += [(x + "\n", y + "\n") for x, y in zip(pick, pick[1:])]
    out.append(("list(APPEND srcs a b c)\n", 'list(APPEND srcs "a b")\n'))
    return out


def processor_files():
    """every command name the aggregator has a process_<name> method for (read from the implementation, so a newly
    special-cased command is included), undocumented and documented, with 1..3 arguments, at top level, inside a class
    block followed by an implementing definition, and inside a function body; in three spellings"""
    from cminx.aggregator import DocumentationAggregator
    from .. import cmakegen
    names = sorted(m[8:] for m in dir(DocumentationAggregator) if m.startswith("process_") and m != "process_generic_command")
    d = "#[[[\n# doc\n#]]\n"
    out = []
    for n in names:
        for case in ("lower", "upper", "mixed"):
            sp = cmakegen.case_of(n, case)
            for doc in ("", d):
                for args in ("a", "a b", "a b c", "NAME a", "m C int", "NAME a EXPECTFAIL", 'PARSE_ARGV ${n} P "" "" ""',
                             'PARSE_ARGV "1" P "" "" ""', "${x} ${y}", '"" ""'):
                    cmd = f"{doc}{sp}({args})"
                    if n in ("function", "macro"):
                        cmd += f"\nend{n}()"
                    for label, wrap in (("top level", "{}\n"),
                                        ("in a class, before a definition", "cpp_class(C)\n{}\nfunction(\"${{m}}\" self x)\nendfunction()\ncpp_end_class()\n"),
                                        ("in a function body", "function(outer)\n{}\nendfunction()\n")):
                        out.append((f"{'documented' if doc else 'undocumented'} {sp}({args}) {label}", wrap.format(cmd)))
    return out


DOC_SHAPES = ["#[[[ Brief text\n#]]", "#[[[\n#]]", "#[[[\n\n#]]", "#[[[ one line #]]", "#[[[\n#\n#]]", "#[[[\n#\n#\n#]]",
              "#[[[\n  #]]", "#[[[ @brief x\n  # indented\n  #]]", "#[[[\n# text\n\n# after a blank source line\n#]]", "#[[[#]]", "#[[[\t\n#]]"]


def doc_shape_files():
    """doccomments of unusual shapes (no text line at all, one line, text on the opening line, blank source lines inside)
    in front of every documentable kind of command and as module doccomment: only acceptance is judged"""
    cmds = ["function(f a)\nendfunction()", "macro(m)\nendmacro()", "set(V 1)", "option(O \"h\" ON)", "message(STATUS x)",
            "add_test(NAME t COMMAND c)", "ct_add_test(NAME t)\nfunction(${t})\nendfunction()",
            "cpp_class(K)\ncpp_end_class()"]
    out = []
    for d in DOC_SHAPES:
        for c in cmds:
            out.append((f"doccomment shape {d!r} before {c.split('(')[0]}", f"{d}\n{c}\n"))
        out.append((f"doccomment shape {d!r} inside a class", f"cpp_class(K)\n{d}\ncpp_attr(K a v)\n{d}\ncpp_member(m K)\nfunction(\"${{m}}\" self)\nendfunction()\ncpp_end_class()\n"))
        if d.startswith("#[[[\n") or d.startswith("#[[[ @"):
            out.append((f"module doccomment shape {d!r}", d.replace("#[[[", "#[[[ @module", 1).replace("@module @brief x", "@module nm") + "\nset(V 1)\n"))
    return out


def keyword_tail_files():
    """documented set()/option()/test commands whose keyword arguments are followed by variable references instead of the
    literal values a processor may expect"""
    d = "#[[[\n# doc\n#]]\n"
    out = []
    for tail in ("CACHE ${args}", "CACHE", "CACHE BOOL", "CACHE ${t} ${d} FORCE", "${v} CACHE", "PARENT_SCOPE ${x}", "${kw}"):
        out.append((f"documented set with tail {tail!r}", f"{d}set(W \"/opt\" {tail})\n"))
        out.append((f"documented set (no value) with tail {tail!r}", f"{d}set(W {tail})\n"))
    for args in ("${ARGN} LABELS portable", "${ARGN}", "${name} EXPECTFAIL", "LABELS a b", "name_without_keyword x"):
        for doc in ("", d):
            out.append((f"ct_add_test({args})", f"{doc}ct_add_test({args})\nfunction(${{t}})\n{doc}ct_add_section({args})\nfunction(${{s}})\nendfunction()\nendfunction()\n"))
            out.append((f"add_test({args})", f"{doc}add_test({args})\n"))
    for args in ("${o}", "${o} ${h}", "O \"h\" ${d} extra", "O"):
        for doc in ("", d):
            out.append((f"option({args})", f"{doc}option({args})\n"))
    return out


def bom_files():
    """files that start with a UTF-8 byte order mark (CMake accepts and ignores it)"""
    d = "#[[[\n# doc\n#]]\n"
    bodies = ["set(A 1)\n", d + "function(f a)\nendfunction()\n", "# comment first\nset(A 1)\n", "#[[[ @module m\n# text\n#]]\nset(A 1)\n",
              "\nset(A 1)\n", "cmake_minimum_required(VERSION 3.20)\ninclude_guard()\n" + d + "option(O \"h\" ON)\n", ""]
    return [(f"byte order mark + {b[:30]!r}", "\ufeff" + b) for b in bodies]


def named_end_files():
    """endfunction()/endmacro() with the (optional, legacy) name argument, nested, where the name is written differently
    from the opening command's first argument (CMake compares evaluated arguments, and only warns)"""
    out = []
    d = "#[[[\n# doc\n#]]\n"
    for kind in ("function", "macro"):
        e = "end" + kind
        for d1 in ("", d):
            out.append((f"{kind}: quoted inner name, bare name at the end", f"{d1}{kind}(outer)\n  {d1}{kind}(\"inner\")\n  {e}(inner)\n{e}(outer)\n"))
            out.append((f"{kind}: reference as inner name", f"set(helper inner)\n{d1}{kind}(outer a)\n  {kind}(${{helper}})\n  {e}(inner)\n{e}()\n"))
            out.append((f"{kind}: names in another case", f"{d1}{kind}(Outer)\n  {d1}{kind}(Inner x)\n  {e}(INNER)\n{e}(OUTER)\n"))
            out.append((f"{kind}: named end after a test body", f"{d1}ct_add_test(NAME t)\n{kind}(${{t}})\n  {kind}(helper)\n  {e}(helper)\n{e}(t)\n"))
    return out


def check_def_params(L):
    """a documented function()/macro() with one parameter written as lexeme L: the definition's parameter list, as the
    listener recorded it, is that one parameter (a lexeme with a line break inside is still one argument)"""
    msgs = []
    for kind in ("function", "macro"):
        text = f"#[[[\n# doc\n#]]\n{kind}(f {L} tail)\nend{kind}()\n"
        r = pipeline.document_text(text)
        if r["page"] is None:
            msgs.append(f"rejected: Documenter.process() failed: {r['error'][:160]}")
            continue
        docs = [x for x in getattr(getattr(r["documenter"], "aggregator", None), "documented", []) if hasattr(x, "params")]
        if docs and list(docs[0].params) != [L, "tail"]:
            msgs.append(f"boundaries: {kind}(f {L!r} tail): the listener recorded the parameters {list(docs[0].params)!r}")
    return {"viol": msgs, "obs": common.digest(L), "nt": common.digest(L), "n": 2, "cls": msgs[0].split(":")[0] + " parameters" if msgs else None,
            "case": {"label": "definition parameter", "def_param": L}}


def redefinition_files():
    """the same function/macro name defined more than once (branches of an if, case variants, overloads by arity)"""
    d = "#[[[\n# doc\n#]]\n"
    out = []
    for kind in ("function", "macro"):
        for d1 in ("", d):
            for d2 in ("", d):
                for n1, n2 in (("say", "say"), ("say", "SAY"), ("Say", "say")):
                    e = "end" + kind
                    out.append((f"{kind} {n1}/{n2} in two branches", f"if(WIN32)\n{d1}{kind}({n1} a)\n{e}()\nelse()\n{d2}{kind}({n2} a b)\n{e}()\nendif()\n"))
                    out.append((f"{kind} {n1}/{n2} in sequence", f"{d1}{kind}({n1})\n{e}()\n{d2}{kind}({n2})\n{e}()\n{d2}{kind}({n2} x)\n  set(V 1)\n{e}()\n"))
                    out.append((f"{kind} {n1} redefined inside itself", f"{d1}{kind}({n1})\n{d2}{kind}({n2})\n{e}()\n{e}()\n"))
    out.append(("function and macro of one name", f"{d}function(both)\nendfunction()\n{d}macro(both)\nendmacro()\n"))
    out.append(("class defined twice", f"{d}cpp_class(K)\ncpp_end_class()\n{d}cpp_class(K)\n{d}cpp_attr(K a)\ncpp_end_class()\n"))
    out.append(("test defined twice", f"{d}ct_add_test(NAME t)\nfunction(${{t}})\nendfunction()\n{d}ct_add_test(NAME t)\nfunction(${{t}})\nendfunction()\n"))
    return out


def _depth_at(text, pos):
    d = 0
    for k, a, b in reflex.scan(text):
        if a >= pos:
            break
        d += k == "lparen"
        d -= k == "rparen"
    return d


def attribute(case, msgs):
    text = case.get("text") if isinstance(case, dict) else None
    if not text:
        return None
    rep, hit = k23_repaired(text)
    if hit and not judge_text(rep)[0]:
        inside = any(k == "bracket_comment" and text.startswith("#[[[", a) and not text.endswith("#]]", a, b)
                     and _depth_at(text, a) > 0 for k, a, b in reflex.scan(text))
        return "K2" if inside else "K3"
    return None


# ---------------------------------------------------------------- generation

def command_texts(quick):
    """(label, text): files of many commands each (a failing file is re-run command by command)"""
    k_all, k_core = (2, 3) if quick else (3, 5)
    arglists = [list(s) for n in range(k_all + 1) for s in itertools.product(LEX, repeat=n)]
    arglists += [list(s) for n in range(k_all + 1, k_core + 1) for s in itertools.product(CORE, repeat=n)]
    cmds = []
    for n, args in enumerate(arglists):
        for sep in (SEPS if len(args) <= 2 else SEPS[:1] + [SEPS[(n % 4) + 1]]):
            name = NAMES[n % len(NAMES)] if n % 7 else "generic_command"
            lead = sep if sep.strip() == "" else ""
            cmds.append(f"{name}({lead}{sep.join(args)}{sep if sep.endswith(chr(10)) or sep != ' ' else ''})")
    return cmds


def comment_files():
    out = []
    a, b = 'set(A "x" b)', "message(STATUS [[z]])"
    for c in COMMENTS:
        nl = "" if c.endswith("\n") else "\n"
        pad = "" if c[-1] in " \n\t" else " "
        out.append((f"comment {c!r} between", f"{a}\n{c}{nl}{b}\n"))
        out.append((f"comment {c!r} after command on its line", f"{a} {c}{nl}{b}\n"))
        out.append((f"comment {c!r} at head", f"{c}{nl if c.strip() else pad}{a}\n{b}\n"))
        out.append((f"comment {c!r} at tail", f"{a}\n{b}\n{c}"))
        out.append((f"comment {c!r} inside arguments", f"set(A {c}{pad} b)\n{b}\n"))
        out.append((f"comment {c!r} before close", f"set(A b {c}{pad})\n{b}\n"))
    # a '#[[[' bracket comment followed - after further commands - by a '#]]' line comment (valid CMake)
    out.append(("bracket comment '#[[[x]]' ... later line comment '#]]'", f"#[[[x]]\n{a}\n#]]\n{b}\n"))
    out.append(("bracket comment '#[[[x]]' ... later doccomment", f"#[[[x]]\n{a}\n#[[[\n# doc\n#]]\n{b}\n"))
    return out


def batches(cmds, size):
    for i in range(0, len(cmds), size):
        yield (f"batch {i // size}", "\n".join(cmds[i:i + size]) + "\n")


def check_batch(job):
    """a file of many commands; if anything is wrong, every command is re-run on its own to isolate it"""
    # the batch, and then each of its commands, is judged in a child of its own: verdicts here never depend on what
    # this worker documented before (histories are the business of the sweeps below)
    label, text = job
    r = common.in_fork(check_file, job)
    n = r["ncmd"]
    if not r["viol"]:
        r["n"] = 1
        r["sub"] = []
        r["case"] = None
        return r
    subs = []
    for name, args, line in reflex.parse(text):
        pass
    # split on the reference's command boundaries
    toks = reflex.scan(text)
    cmds, depth, start = [], 0, None
    for k, a, b in toks:
        if start is None and k == "identifier" and depth == 0:
            start = a
        if k == "lparen":
            depth += 1
        if k == "rparen":
            depth -= 1
            if depth == 0 and start is not None:
                cmds.append(text[start:b]); start = None
    for c in cmds:
        rr = common.in_fork(check_file, (label, c + "\n"))
        if rr["viol"]:
            subs.append(rr)
    if not subs:   # only the combination fails: report the batch itself
        subs = [r]
    return {"viol": [], "obs": r["obs"], "nt": r["nt"], "n": 1 + len(cmds), "sub": subs, "ncmd": n, "known": None}


# ---------------------------------------------------------------- cmake cross-validation of the reference

PRELUDE = "function(probe)\nendfunction()\n"


def cmake_check(job):
    """reference vs CMake's own lexer on a straight-line file of probe(...) calls; returns disagreement or None"""
    idx, cmds = job
    d = pipeline.tmpdir()
    path = os.path.join(d, f"x{idx}.cmake")
    body = "".join("probe" + c[c.index("("):] + "\n" for c in cmds)
    with open(path, "w", encoding="utf-8") as f:
        f.write(PRELUDE + body)
    p = subprocess.run(["cmake", "--trace", "--trace-format=json-v1", "-P", path], capture_output=True, text=True)
    got = []
    for line in p.stderr.splitlines():
        if line.startswith('{"args"'):
            j = json.loads(line)
            if j["cmd"] == "probe":
                got.append(j["args"])
    want = [a for n, a, _ in reflex.parse(body)]
    if got != want:
        i = next((i for i, (a, b) in enumerate(itertools.zip_longest(got, want)) if a != b), 0)
        return (f"reference tokenizer disagrees with cmake on {cmds[i] if i < len(cmds) else '?'!r}: cmake "
                f"{got[i] if i < len(got) else None!r} reference {want[i] if i < len(want) else None!r} "
                f"(cmake rc={p.returncode} {p.stderr[-200:] if p.returncode else ''})")
    return None


def check_signature(args):
    """a documented generic command must show its arguments as written, in order"""
    from .. import rstobs
    text = "#[[[\n# doc\n#]]\nmy_cmd(" + " ".join(args) + ")\n"
    r = pipeline.document_text(text)
    msgs = []
    if r["page"] is None:
        msgs.append(f"rejected: Documenter.process() failed: {r['error'][:160]}")
    else:
        ents = rstobs.Page(r["page"]).entries()
        want = rstobs.norm_ws("my_cmd(" + " ".join(args) + ")")
        got = [rstobs.norm_ws(b.arg) for b in ents]
        if got != [want]:
            msgs.append(f"signature: documented generic command shows {got}, written {want!r}")
    return {"viol": msgs, "obs": common.digest(text), "nt": common.digest(text), "n": 1,
            "cls": msgs[0].split(":")[0] if msgs else None, "case": {"label": "documented generic command", "sig_args": args}}


def block_files():
    """balanced block structures (function/macro/class/test, nested), documented or not, in every command-name case"""
    from .. import cmakegen
    structs = {
        "function": [{"k": "function", "doc": 1, "params": ["a"]}, {"k": "set", "doc": 0}],
        "macro": [{"k": "macro", "doc": 1, "params": ["a"]}, {"k": "cmake_parse_arguments"}],
        "nested": [{"k": "function", "doc": 1, "params": []}, {"k": "macro", "doc": 1, "params": []}, {"k": "if", "doc": 1},
                   {"k": "foreach", "doc": 0}],
        "class": [{"k": "cpp_class", "doc": 1, "bases": ["B"]}, {"k": "cpp_attr", "doc": 1, "default": "v"},
                  {"k": "cpp_member", "doc": 1, "types": ["int"], "params": ["a"]}, {"k": "close"},
                  {"k": "cpp_class", "doc": 1}, {"k": "cpp_constructor", "doc": 0, "types": [], "params": [], "impl": "macro"}],
        "test": [{"k": "ct_add_test", "doc": 1}, {"k": "ct_add_section", "doc": 1, "expectfail": 1},
                 {"k": "ct_add_section", "doc": 0, "impl": "macro"}],
        # doccomments on the declaration AND on the definition that implements it (only acceptance is judged here)
        "false_blocks": [{"k": "if", "doc": 0, "args": ["FALSE"]}, {"k": "function", "doc": 1, "params": []},
                         {"k": "if", "doc": 0, "args": ["0"]}, {"k": "close"}, {"k": "if", "doc": 0, "args": ["OFF"]},
                         {"k": "macro", "doc": 0, "params": []}, {"k": "close"}, {"k": "close"}, {"k": "close"},
                         {"k": "cpp_class", "doc": 1}, {"k": "if", "doc": 0, "args": ["FALSE"]}],
        "documented_closers": [{"k": "function", "doc": 1, "params": []}, {"k": "macro", "doc": 0, "params": []},
                               {"k": "close", "doc": 1}, {"k": "close", "doc": 1}, {"k": "cpp_class", "doc": 1},
                               {"k": "close", "doc": 1}, {"k": "if", "doc": 0}, {"k": "close", "doc": 1}],
        "test_impldoc": [{"k": "ct_add_test", "doc": 1, "impldoc": 1}, {"k": "ct_add_section", "doc": 0, "impldoc": 1},
                         {"k": "close"}, {"k": "close"}, {"k": "cmake_parse_arguments"}, {"k": "function", "doc": 1, "params": []}],
        "class_impldoc": [{"k": "cpp_class", "doc": 1}, {"k": "cpp_member", "doc": 1, "impldoc": 1, "types": ["int"], "params": ["a"]},
                          {"k": "close"}, {"k": "cpp_constructor", "doc": 0, "impldoc": 1, "types": [], "params": [], "impl": "macro"}],
    }
    out = []
    for name, evs in structs.items():
        for case in ("lower", "upper", "mixed"):
            for docs in (True, False):
                e2 = [dict(e, doc=(e.get("doc", 0) if docs else 0)) if "doc" in e else dict(e) for e in evs]
                out.append((f"block structure {name}, {case} case, {'documented' if docs else 'undocumented'}",
                            cmakegen.text_of(e2, case=case)))
    return out


def documented_uses(lexemes):
    """every lexeme as the value/parameter/name of each documentable command kind, with a doccomment: only acceptance
    (and the command sequence) is judged"""
    out = []
    d = "#[[[\n# doc\n#]]\n"
    for L in lexemes:
        if L.startswith("("):
            continue
        out.append((f"documented set with value {L!r}", f"{d}set(V {L})\n"))
        out.append((f"documented set with values {L!r} x2", f"{d}set(V {L} {L})\n"))
        out.append((f"documented option with help {L!r}", f"{d}option(O {L} {L})\n"))
        out.append((f"documented function with parameter {L!r}", f"{d}function(f {L})\nendfunction()\n"))
        out.append((f"documented add_test with {L!r}", f"{d}add_test(NAME {L} COMMAND {L})\n"))
        out.append((f"class/attr/member with {L!r}", f"{d}cpp_class(C {L})\n{d}cpp_attr(C a {L})\n{d}cpp_member(m C {L})\n"
                                                      f"function(\"${{m}}\" self {L})\nendfunction()\ncpp_end_class()\n"))
        out.append((f"test with {L!r}", f"{d}ct_add_test(NAME {L})\nfunction({L})\nendfunction()\n"))
        out.append((f"test/section bodies with parameters {L!r}", f"{d}ct_add_test(NAME t)\nfunction(${{t}} {L} p2)\n{d}ct_add_section(NAME s)\n"
                                                                     f"macro(${{s}} p1 {L} p3)\nendmacro()\nendfunction()\n"))
    return out


def boundary_files():
    """valid files larger than the usual I/O buffer sizes with a multi-byte character whose bytes straddle a multiple of
    4096/8192/65536 (comment padding in front, a command after)"""
    out = []
    for boundary in (4096, 8192, 16384, 65536, 131072):
        for ch in ("é", "✓", "\U0001F600"):
            for back in range(1, len(ch.encode()) + 0):
                head = "# pad\n"
                fill = boundary - back - len(head.encode()) - 2
                text = head + "# " + "x" * fill + ch + " tail\nset(A \"" + ch + "\")\nmessage(STATUS done)\n"
                out.append((f"{ch!r} straddling byte {boundary} (-{back})", text))
    return out


def corpus_files(quick):
    fs = sorted(glob.glob("/usr/share/cmake-3.25/**/*.cmake", recursive=True), key=lambda f: (os.path.getsize(f), f))
    return fs[:300] if quick else fs


def check_corpus(path):
    with open(path, encoding="utf-8", errors="strict") as f:
        text = f.read()
    if not reflex.valid(text):
        return {"viol": [], "obs": None, "nt": None, "n": 0, "skipped": path}
    r = check_file((path, text))
    r["case"] = {"label": path, "path": path}
    return r


def run(ctx):
    quick = ctx.tier == "quick"
    cmds = command_texts(quick)
    # 1. validate the reference against CMake's own lexer on everything generated here
    chunks = [(i, cmds[i:i + 400]) for i in range(0, len(cmds), 400)]
    bad = [x for x in common.pmap(cmake_check, chunks, chunk=1) if x]
    if bad:
        raise common.HarnessFault(bad[0])
    ctx.cov["reference_validated_against_cmake_on_commands"] = len(cmds)
    # 2. commands in batch files
    jobs = list(batches(cmds, 40))
    results = common.pmap(check_batch, jobs, chunk=2)
    known = {}
    for job, r in zip(jobs, results):
        ctx.cov["evaluations"] += r["ncmd"]          # every command of the batch went through the real parser
        ctx.cov["traces_validated_against_impl"] += r["ncmd"]
        ctx.obs.add(r["obs"])
        for s in r["sub"]:
            if s.get("known"):
                known[s["known"]] = known.get(s["known"], 0) + 1
            else:
                ctx.violation(s["case"], s["viol"], s["cls"])
    ctx.cov["commands"] = len(cmds)
    ctx.nontrivial |= {common.digest(c) for c in cmds if "(" in c and not c.endswith("()")}
    ctx.cov["states"] += len(cmds)
    ctx.cov["transitions"] += len(cmds)
    ctx.sample({"label": "one generated command", "text": cmds[len(cmds) // 3]})
    # 3. comment shapes
    cf = comment_files()
    for (label, text), r in zip(cf, ctx.sweep(check_file, cf, space="comment shapes", selftest=10)):
        pass
    ctx.sweep(check_file, block_files(), space="block structures x command-name case", selftest=3)
    ctx.sweep(check_file, documented_uses(LEX if not quick else [l for l in LEX if l in CORE or l in BRA or l in QUO or l in ("[", "*values", "out[", "x**2") or l in NUMLIKE or l in CASEODD]),
              space="documented commands x lexemes", selftest=3)
    ctx.sweep(check_file, boundary_files(), space="multi-byte characters at buffer boundaries", selftest=2)
    ctx.sweep(check_file, redefinition_files(), space="a name defined more than once", selftest=2)
    ctx.sweep(check_file, named_end_files(), space="named end commands", selftest=2)
    ctx.sweep(check_file, bom_files(), space="files starting with a byte order mark", selftest=1)
    ctx.sweep(check_file, keyword_tail_files(), space="variable references where literal keyword values are usual", selftest=2)
    ctx.sweep(check_file, doc_shape_files(), space="doccomment shapes x command kinds", selftest=2)
    ctx.sweep(check_def_params, [l for l in LEX if not l.startswith("(")], space="definition parameters x lexemes", selftest=2)
    ctx.sweep(check_file, processor_files(), space="every specially processed command name x arity x context", selftest=2)
    rp = rewrite_pairs(cmds, 3 if quick else 12)
    ctx.sweep(check_rewrite, rp, space="one path rewritten with equal size and mtime", selftest=2)
    # 3b. signature of documented generic commands (arguments without line breaks)
    one_line = [l for l in LEX if "\n" not in l]
    sig_jobs = [[a] for a in one_line] + [[a, b] for a in CORE for b in CORE if "\n" not in a + b]
    if not quick:
        sig_jobs += [[a, b] for a in one_line for b in one_line]
    ctx.sweep(check_signature, sig_jobs, space="documented generic signatures", selftest=5)
    # 4. corpus
    files = corpus_files(quick)
    res = ctx.sweep(check_corpus, files, space="corpus", selftest=3)
    ctx.cov["corpus_files"] = len(files)
    ctx.cov["corpus_skipped_not_cmake"] = [r["skipped"] for r in res if r.get("skipped")]
    ctx.cov["corpus_commands"] = sum(r.get("ncmd", 0) for r in res)
    for fid, n in known.items():
        if fid in ctx.open_findings:
            ctx.known_seen[fid] = ctx.known_seen.get(fid, 0) + n
        else:
            ctx.violation({"label": f"{fid}-shaped"}, [f"{n} inputs fail only because of a '#[[[' bracket comment"])
    ctx.cov["bounds"] = {"lexemes": LEX, "core": CORE, "separators": SEPS, "names": NAMES, "comment_shapes": COMMENTS}
    ctx.assumptions += ["legacy unquoted arguments are not generated", "cmake 3.25.1 is the reference lexer",
                        "a corpus file the reference tokenizer rejects (configure template) is skipped and listed"]
    return RULE


def replay(case):
    if "sig_args" in case:
        return check_signature(case["sig_args"])["viol"]
    if "def_param" in case:
        return check_def_params(case["def_param"])["viol"]
    if "rewrite" in case:
        return common.in_fork(check_rewrite, tuple(case["rewrite"]))["viol"]
    if "path" in case:
        r = check_corpus(case["path"])
    else:
        r = check_file((case["label"], case["text"]))
    return r["viol"] if not r.get("known") else []
