"""C01 - doccomment text reaches the output verbatim (bounded-exhaustive inputs)."""
import functools
import itertools

from .. import common, cmakegen, pipeline, rstobs
from ..cmakegen import name_of

ID = "C01"
RULE = ("Space A: every doccomment body of <=N lines over the atom alphabet (one atom per shortcut of the cleaning code "
        "and per character class: '#', '[', ']', ':', '..', leading spaces, empty, trailing spaces, tab, non-ASCII) x "
        "every block indent, on a function carrier; Space B: every carrier kind (function, macro, set, option, generic, "
        "add_test, ct_add_test, ct_add_section, classes and attrs/members/ctors at class depth 1-3, @module named and "
        "unnamed) x bodies of <=2 lines over a core alphabet x indents, plus the leaderless form; Space C: every ordered "
        "pair of adjacent documented carriers with unique marker lines.  Oracle: the expected lines (known to the "
        "generator) occur as one contiguous run in the item's block modulo a common indent, with exact multiplicity in "
        "the block and on the page.  non-trivial = body has >=1 non-empty line; distinct by (carrier, body, indent)")

ATOMS = ["word", "two words.", "#hash", "##", "[br]", "]x", "[", ":field: v", ".. note:: n", " one-space", "  two",
         "    four", "", "trailing  ", "tab\tin", "café → ✓ \U0001F600", "#]", "!?*|`_\\", "]",
         "e\u0301 \u212b \uf900 \u1100\u1161",   # not NFC/NFKC-stable: combining mark, compatibility and conjoining code points
         "----", "====", "~~~~~~~~", "....", "####", "  ----  "]     # lines that reST would read as a transition or an underline
CORE = ["word", "#hash", "[br]", "  two", "", "café → ✓ \U0001F600", ":field: v", "]x", "trailing  ", ".. note:: n",
        "e\u0301 \u212b \uf900 \u1100\u1161", "----", "===="]
INDENTS = ["", " ", "  ", "    ", "      ", "        ", "\t", "\t\t", " \t"]
CARRIERS = ["function", "macro", "set", "option", "generic", "include_guard", "add_test", "add_test_pos", "ct_add_test", "ct_add_section",
            "class1", "class2", "class3", "attr1", "attr3", "member1", "member2", "member3", "ctor1", "ctor2",
            "test_impldoc", "member_impldoc", "module_named", "module_unnamed"]


def carrier_events(carrier, body, tag="a"):
    """returns (events, index of the documented item)"""
    if carrier in ("test_impldoc", "member_impldoc"):
        # the doccomment under test sits on the definition that implements the declaration
        if carrier == "test_impldoc":
            return [{"k": "ct_add_test", "doc": 1, "doctext": ["Declaration doc " + tag + "."], "impldoc": list(body)}], 0
        return [{"k": "cpp_class", "doc": 0},
                {"k": "cpp_member", "doc": 1, "doctext": ["Declaration doc " + tag + "."], "impldoc": list(body),
                 "types": ["int"], "params": ["a"]}], 1
    d = {"doc": 1, "doctext": list(body)}
    if carrier == "generic":
        return [dict(k="generic", cmd="gcmd_" + tag, **d)], 0
    if carrier == "include_guard":     # a documented include_guard() (first command of the file when it is the first carrier)
        return [dict(k="generic", cmd="include_guard", args=["GLOBAL"], **d)], 0
    if carrier == "add_test_pos":      # the short signature add_test(<name> <command> [<arg>...])
        return [dict(k="add_test", args=["smoke_" + tag, "prog_" + tag, "--flag"], **d)], 0
    if carrier in ("function", "macro", "set", "option", "generic", "add_test", "ct_add_test"):
        return [dict(k=carrier, **d)], 0
    if carrier == "ct_add_section":
        return [{"k": "ct_add_test", "doc": 0}, dict(k="ct_add_section", **d)], 1
    if carrier.startswith("class"):
        n = int(carrier[-1])
        return [{"k": "cpp_class", "doc": 0}] * (n - 1) + [dict(k="cpp_class", **d)], n - 1
    for pre, k in (("attr", "cpp_attr"), ("member", "cpp_member"), ("ctor", "cpp_constructor")):
        if carrier.startswith(pre):
            n = int(carrier[-1])
            ev = dict(k=k, **d)
            if k != "cpp_attr":
                ev.update(types=["int"], params=["a"])
            if k == "cpp_constructor":
                ev["ctor"] = "CTOR_" + tag
            return [{"k": "cpp_class", "doc": 0}] * n + [ev], n
    if carrier.startswith("module"):
        return [{"k": "module", "name": "my.mod-name" if carrier == "module_named" else "", "doctext": list(body)},
                {"k": "function", "doc": 0}], 0
    raise common.HarnessFault(carrier)


def find_block(page, events, idx):
    ev = events[idx]
    if ev.get("impldoc"):
        # the implementing definition's own entry: the block (other than the declaration's) whose first argument is
        # the reference to the declared name
        nm0 = name_of(ev, idx) if ev["k"] != "cpp_constructor" else ev.get("ctor", "CTOR")
        return [b for top in page.blocks for b in top.walk()
                if b.name == "function" and ("${" + nm0 + "}") in b.arg.split("(")[0]]
    if ev["k"] == "module":
        return page.module()
    if ev["k"] == "add_test" and "args" in ev and "NAME" not in ev["args"]:
        # no NAME keyword: the entry has no name, it is recognised by its argument list
        return [b for top in page.blocks for b in top.walk()
                if b.name == "function" and b.arg.strip().startswith("(") and ev["args"][0] in b.arg]
    nm = ev.get("ctor", "CTOR") if ev["k"] == "cpp_constructor" else ev.get("cmd", "message").lower() if ev["k"] == "generic" else name_of(ev, idx)
    out = []
    for top in page.blocks:
        for b in top.walk():
            if b.name in ("function", "data", "py:class", "py:method", "py:attribute") and \
                    b.arg.split("(")[0].strip() == nm:
                out.append(b)
    return out


def dedent(lines):
    """common indent removed; a non-blank line is compared exactly (its trailing spaces are part of 'the text that
    remains'), whitespace-only lines count as blank lines"""
    ind = [len(l) - len(l.lstrip(" ")) for l in lines if l.strip()]
    c = min(ind, default=0)
    return [l[c:] if l.strip() else "" for l in lines]


def run_matches(hay, needle):
    """start positions where needle occurs as one contiguous run in hay modulo a common indent"""
    need = dedent(needle)
    n = len(need)
    res = []
    for i in range(len(hay) - n + 1):
        if dedent(hay[i:i + n]) == need:
            res.append(i)
    return res


def judge(page_text, events, targets):
    """targets: [(idx, body)]"""
    msgs = []
    page = rstobs.Page(page_text)
    all_lines = [l.strip() for l in page_text.split("\n")]
    for idx, body in targets:
        kind = events[idx]["k"]
        blocks = find_block(page, events, idx)
        if len(blocks) != 1:
            msgs.append(f"attribution: item {kind}#{idx} has {len(blocks)} blocks on the page")
            continue
        # every line below the item's heading (doc lines that look like directives included), content indent removed
        b0 = blocks[0]
        ci = b0.content_indent or 0
        own = [l[ci:] if l.strip() else "" for l in b0.body]
        exp = list(body)
        while exp and exp[0] == "":      # leading/trailing empty lines of a body cannot be told apart from the
            exp.pop(0)                   # blank lines CMinx emits around a paragraph; inner ones are compared
        while exp and exp[-1] == "":
            exp.pop()
        if not exp:
            continue
        if not run_matches(own, exp):
            msgs.append(f"verbatim: doc lines of {kind}#{idx} not found as a contiguous run in its block: "
                        f"expected {exp!r} block {rstobs.strip_blank(own)!r}")
            continue
        for l in set(x.strip() for x in exp if x.strip()):
            want = sum(1 for x in exp if x.strip() == l)
            got = sum(1 for x in own if x.strip() == l)
            if got != want:
                msgs.append(f"multiplicity: line {l!r} of {kind}#{idx} occurs {got}x in its block, {want}x in the source")
            tot = sum(1 for x in all_lines if x == l)
            want_tot = sum(sum(1 for x in b if x.strip() == l) for _, b in targets)
            if tot != want_tot:
                msgs.append(f"attribution: line {l!r} occurs {tot}x on the page, {want_tot}x in the doccomments")
    return msgs


def check_twins(job):
    """the same documented command (same name, same doc text) twice in one module, e.g. in two branches"""
    _, carrier, body = job
    e1, i1 = carrier_events(carrier, body, "twin")
    e1 = cmakegen.close(e1)
    for j, ev in enumerate(e1):
        if ev["k"] not in ("close", "module"):
            ev["name"] = cmakegen.name_of(ev, j) if "name" not in ev else ev["name"]
    events = [{"k": "if", "doc": 0}] + e1 + [{"k": "close"}, {"k": "if", "doc": 0}] + [dict(e) for e in e1] + [{"k": "close"}]
    text = cmakegen.text_of(events)
    r = pipeline.document_text(text)
    msgs = []
    if r["page"] is None:
        msgs = [f"error: pipeline failed: {r['error']}"]
    else:
        page = rstobs.Page(r["page"])
        blocks = find_block(page, events, 1 + i1)
        exp = [l for l in body]
        hits = 0
        for b in blocks:
            ci = b.content_indent or 0
            own = [l[ci:] if l.strip() else "" for l in b.body]
            hits += 1 if run_matches(own, exp) else 0
        if hits != 2:
            msgs.append(f"twins: the doccomment of two identical documented {carrier} commands is found in {hits} "
                        f"directives, expected 2 (a line was dropped or attributed elsewhere)")
    return {"viol": msgs, "obs": common.digest(r["page"] or ""), "nt": common.digest(job), "cls": "twins" if msgs else None}


def check_namesakes(job):
    """two documented commands with the SAME name but different doc texts in one scope (for attributes, members and
    constructors: in one class), e.g. a redeclaration: both texts must reach the page"""
    _, carrier = job
    a, b = ["Namesake text alpha.", "", "  alpha indented"], ["Namesake text beta.", ":field: beta"]
    e1, i1 = carrier_events(carrier, a, "ns")
    pre, item = e1[:i1], e1[i1]
    item["name"] = cmakegen.name_of(item, i1)
    second = dict(item, doctext=list(b))
    events = cmakegen.close(pre + cmakegen.close([item]) + cmakegen.close([second]))
    r = pipeline.document_text(cmakegen.text_of(events))
    msgs = []
    if r["page"] is None:
        msgs = [f"error: pipeline failed: {r['error']}"]
    else:
        lines = [l.strip() for l in r["page"].split("\n")]
        for l in a + b:
            if l.strip() and lines.count(l.strip()) != 1:
                msgs.append(f"namesake: line {l!r} of one of two same-named documented {carrier} commands appears "
                            f"{lines.count(l.strip())} times in the page, expected once")
    return {"viol": msgs, "obs": common.digest(r["page"] or ""), "nt": common.digest(job), "cls": "namesake" if msgs else None}


STRIP_CFGS = ["^_cf_", "^[^_]*_", "pfx", "_$"]


def check_cfg(job):
    """a parameter-name strip pattern is configured and the doc text mentions the parameters: the text stays verbatim"""
    _, carrier, rx = job
    params = ["_cf_dst", "pfx_name_", "plain"]
    body = ["Copies _cf_dst to pfx_name_ (plain).", "", ":param _cf_dst: where pfx_name_ goes", ":param pfx_name_: see _cf_dst",
            "  _cf_dst pfx_name_ plain"]
    events, idx = carrier_events(carrier, body, "cfg")
    events[idx]["params"] = list(params)
    if "types" in events[idx]:
        events[idx]["types"] = ["int"] * len(params)
    cfg = {k: rx for k in ("function_parameter_name_strip_regex", "macro_parameter_name_strip_regex", "member_parameter_name_strip_regex")}
    from .. import modsearch
    r = pipeline.document_text(cmakegen.text_of(events), modsearch.settings_of(cfg))
    if r["page"] is None:
        msgs = [f"error: pipeline failed: {r['error']}"]
    else:
        msgs = judge(r["page"], cmakegen.close(events), [(idx, body)])
    return {"viol": msgs, "obs": common.digest(r["page"] or ""), "nt": common.digest(job), "cls": ("cfg/" + msgs[0].split(":")[0]) if msgs else None}


def check(job):
    mode = job[0]
    if mode == "namesake":
        return check_namesakes(job)
    if mode == "cfg":
        return check_cfg(job)
    if mode == "cli":
        return check_cli(job)
    if mode == "twin":
        return check_twins(job)
    if mode in ("single", "gap", "head"):
        _, carrier, body, indent, leader = job
        events, idx = carrier_events(carrier, body)
        head = ""
        if mode == "gap":
            events[idx]["docgap"], leader = leader, True
        if mode == "head":
            head, leader = leader, True
        targets = [(idx, body)]
    else:
        _, c1, c2, b1, b2, indent, leader = job
        e1, i1 = carrier_events(c1, b1, "first")
        e1 = cmakegen.close(e1)
        e2, i2 = carrier_events(c2, b2, "second")
        events = e1 + e2
        i2 += len(e1)
        targets = [(i1, b1), (i2, b2)]
        if c2.startswith("module"):
            raise common.HarnessFault("module doccomment must come first")
    layout = {"doc_indent": indent, "cmd_indent": indent, "head": indent, "leader": leader}
    if mode == "head":
        layout["head"] = head
    text = cmakegen.render(cmakegen.items(cmakegen.close(events)), layout)
    r = pipeline.document_text(text)
    if r["page"] is None:
        msgs = [f"error: pipeline failed: {r['error']}"]
    else:
        msgs = judge(r["page"], cmakegen.close(events), targets)
    nt = any(any(l.strip() for l in b) for _, b in targets)
    return {"viol": msgs, "obs": common.digest(r["page"] or r["error"]), "nt": common.digest(job) if nt else None,
            "cls": (msgs[0].split(":")[0] + ("/nonascii" if any(ord(ch) > 127 for ch in text) else "")
                    + ("/module" if "@module" in text else "")) if msgs else None}


CLI_NAMES = ["index.cmake", "sub/index.cmake", "Toolchain.CMake", "sub/UP.CMAKE", "a.cmake", "a.b.cmake", "a.c.cmake", "a-b.cmake", "a_b.cmake", "A.cmake", "a.cmake.cmake", "ab.cmake",
             "sub/a.cmake", "sub/a.b.cmake", "sub.cmake", "a/a.cmake"]


def check_cli(job):
    """a directory of modules whose names differ only in a way file-name handling might confuse, each with its own marker
    lines: after `cminx -r -o out dir` every marker line is in exactly one generated file"""
    from .. import fsbox
    names = list(job[1])
    box = fsbox.Box("c01")
    msgs = []
    try:
        files = {}
        for n, nm in enumerate(names):
            files["in/" + nm] = (f"#[[[\n# Marker function {n} of {nm}.\n#\n#   indented {n}\n#]]\nfunction(fn_{n} a)\nendfunction()\n"
                                 f"#[[[\n# Marker variable {n} of {nm}.\n#]]\nset(VAR_{n} v)\n")
        # every directory also holds an ordinary lower-case module (auto-exclusion looks for one)
        import os as _os
        for d in {_os.path.dirname(k) for k in files} | {"in"}:
            files[d + "/zz_plain.cmake"] = "set(PLAIN 1)\n"
        box.build(files)
        argv_inputs = [box.path("work", "in")]
        if len(job) > 2:      # inputs: the two lone files and the directory 'mods', in the given order (f = file, d = directory)
            lone = [box.path("work", "in", "lone_first.cmake"), box.path("work", "in", "lone_last.cmake")]
            argv_inputs = [lone.pop(0) if c == "f" else box.path("work", "in", "mods") for c in job[2]]
        r = box.run(["-r", "-o", box.path("out")] + argv_inputs, cwd="work")
        if r["status"] != 0:
            msgs.append(f"error: cminx -r -o out dir failed on {names}: {r['exc'] or r['stdout'][-200:]}")
        else:
            pages = {k: v for k, v in box.files("out").items() if k.endswith(".rst")}
            for n, nm in enumerate(names):
                for line in (f"Marker function {n} of {nm}.", f"  indented {n}", f"Marker variable {n} of {nm}."):
                    hits = [k for k, v in pages.items() if isinstance(v, str) and any(l.rstrip().endswith(line) for l in v.split("\n"))]
                    if len(hits) != 1:
                        msgs.append(f"cli-dropped: doc line {line!r} of {nm} is in {len(hits)} generated files {hits} "
                                    f"(modules {names})")
    finally:
        box.cleanup()
    msgs = [m.replace(box.root, "<box>") for m in msgs]
    return {"viol": msgs[:4], "obs": common.digest([names, msgs]), "nt": common.digest(names), "cls": "cli-dropped" if msgs else None}


def bodies(atoms, n):
    for k in range(1, n + 1):
        yield from itertools.product(atoms, repeat=k)


def run(ctx):
    quick = ctx.tier == "quick"
    jobs = []
    ind_a = INDENTS if not quick else common.rot(INDENTS)[:5] + [i for i in ("      ", "\t") if i not in common.rot(INDENTS)[:5]]
    # Space A
    for b in bodies(ATOMS, 2):
        for ind in INDENTS:
            jobs.append(("single", "function", list(b), ind, True))
    for b in itertools.product(ATOMS if not quick else CORE, repeat=3):
        for ind in (INDENTS if not quick else ind_a):
            jobs.append(("single", "function", list(b), ind, True))
    if not quick:
        for b in itertools.product(ATOMS, repeat=4):
            for ind in ("", "  ", "      ", "\t"):
                jobs.append(("single", "function", list(b), ind, True))
    na = len(jobs)
    # Space B
    core_b = CORE[:6] + CORE[-1:] + [":param a: the first value"]     # members are declared with a parameter 'a' 
    for carrier in CARRIERS:
        for b in bodies(core_b, 2 if quick else 3):
            for ind in ("", "  ", "      ", "\t"):
                jobs.append(("single", carrier, list(b), ind, True))
    # an ordinary comment (or two) between the doccomment and its command
    for carrier in CARRIERS:
        if carrier.startswith("module") or carrier.endswith("impldoc"):
            continue
        for gap in ("# cmake-lint: disable=C0103", "#[[ note ]]", "# one\n\n# two"):
            for ind in ("", "  ", "\t"):
                jobs.append(("gap", carrier, ["Doc above a comment.", "", "  second"], ind, gap))
    # a licence header above the doccomment whose comment lines hold characters that Python's str.splitlines() treats as
    # line breaks (form feed, VT, FS, NEL, LS, PS) - for CMake and the lexer they are ordinary comment text
    for carrier in CARRIERS:
        for hd in ("# page one\x0c page two\n", "# a\x0c\x0c b\x0b c\n# d\u2028 e\u2029 f\x85 g\x1c h\n\n"):
            jobs.append(("head", carrier, ["First line.", "", "  indented", "Last line."], "", hd))
    # leaderless form: unindented, lines start with a letter
    letter = ["word", "two words.", "café → ✓", "tab\tin", "trailing  ", "See issue #12 [x] here", "C#-style; a]b"]
    for carrier in CARRIERS:
        for b in bodies(letter, 2):
            jobs.append(("single", carrier, list(b), "", False))
    nb = len(jobs) - na
    # Space C
    pair_atoms = ["#hash", "  two", ":field: v"]
    for c1 in CARRIERS:
        for c2 in CARRIERS:
            if c2.startswith("module") or c1 == c2 == "include_guard":
                continue        # (two include_guard() entries cannot be told apart by name)
            for a in pair_atoms if not quick else pair_atoms[:2]:
                jobs.append(("pair", c1, c2, [f"Marker first {c1}.", a], [a, f"Marker second {c2}."], "", True))
    # twins: the same documented command twice (e.g. in the branches of an if)
    for c in CARRIERS:
        if c.startswith("module") or c.endswith("impldoc") or c == "include_guard" or c.startswith(("attr", "member", "ctor", "class")) and c[-1] != "1":
            continue
        for a in (["Twin doc line."], ["Twin doc.", "", "  second"]):
            jobs.append(("twin", c, a))
    # namesakes: the same name with two different doc texts in one scope; and configured parameter-name strip patterns
    for c in ("function", "macro", "set", "option", "generic", "add_test", "ct_add_test", "ct_add_section", "class1", "class2",
              "attr1", "attr2", "member1", "member2", "ctor1"):
        jobs.append(("namesake", c))
    for c in ("function", "macro", "member1", "member2", "ctor1", "ct_add_test", "ct_add_section"):
        for rx in STRIP_CFGS:
            jobs.append(("cfg", c, rx))
    nc = len(jobs) - na - nb
    ctx.cov["bounds"] = {"atoms": ATOMS, "core": CORE, "indents": INDENTS, "carriers": CARRIERS,
                         "space_A": na, "space_B": nb, "space_C": nc}
    ctx.sweep(check, jobs, space="A+B+C")
    cjobs = [("cli", CLI_NAMES)] + [("cli", [a, b]) for a, b in itertools.combinations(CLI_NAMES, 2)]
    # several inputs on one command line (lone files and directories, in both orders) into one output directory
    cjobs += [("cli", ["lone_first.cmake", "mods/m1.cmake", "mods/sub/m2.cmake", "lone_last.cmake"], order) for order in ("fdf", "dff", "ffd")]
    ctx.sweep(check_cli, cjobs, space="CLI: sibling modules with confusable names", selftest=2)
    ctx.assumptions += ["leading/trailing empty lines of a body are not compared (indistinguishable from paragraph spacing)",
                        "relative indentation is compared modulo a common offset, as the statement says",
                        "no atom contains ']]' (quantifier)"]
    return RULE


def replay(case):
    return check(tuple(case))["viol"]
