"""C11 - test entries carry the declared name, EXPECTFAIL flag and arguments."""
import functools
import itertools

from .. import cmakegen, common, modsearch, statespace
from ..statespace import context

ID = "C11"
RULE = ("(a) bounded-exhaustive argument lists: the pair NAME <n> inserted at every position of every sequence of "
        "<=K other arguments from a 9-element pool (EXPECTFAIL, an argument equal to the name, keywords as "
        "substrings, COMMAND, quoted, reference), 3 name forms, for ct_add_test / ct_add_section / add_test, "
        "documented and undocumented; (b) explicit-state BFS over nestings of tests and sections with by-standers. "
        "(c) every ordered pair of 12 argument lists that collide once blanks are dropped, as two declarations in one module. Each case runs the real pipeline; oracle = reference model of the statement.  non-trivial = every case "
        "(each expects >=1 test entry); distinct by expected (kind, signature) list")

NAMES = ["tname", '"quoted name"', "${tref}", "fail", "_trail_", '"plainq"']     # ...; quotes that are not needed are still written     # a fragment of a keyword; underscores at both ends


def pool(name):
    return ["EXPECTFAIL", name, "MYNAME", "NAME_X", "EXPECTFAILURE", "COMMAND", "prog", '"quoted  arg\tx"', "${v}",
            "--NAME", "${EXPECTFAIL}", "am", "EXPECT", "arg_", '"^core\\\\.io$"']    # keyword fragments, reST-special endings, backslashes


def arg_lists(k):
    for name in NAMES:
        p = pool(name)
        for n in range(k + 1):
            for seq in itertools.product(p, repeat=n):
                for pos in range(n + 1):
                    yield list(seq[:pos]) + ["NAME", name] + list(seq[pos:])


def case_events(cmd, doc, args, params=None, impl="function"):
    """params: formal parameters of the implementing definition behind its name (they are the definition's business)"""
    extra = {"params": list(params), "impl": impl} if params is not None else {}
    if cmd == "add_test":
        return [{"k": "add_test", "doc": doc, "args": args}]
    if cmd == "ct_add_test":
        return [dict({"k": "ct_add_test", "doc": doc, "args": args}, **extra)]
    return [{"k": "ct_add_test", "doc": 0}, dict({"k": "ct_add_section", "doc": doc, "args": args}, **extra)]


# argument lists that collide pairwise once the blanks between the arguments are removed (a cache keyed by the
# declaration's concatenated token text would confuse them), plus exact repeats
PAIR_LISTS = [["NAME", "tn", "EXPECTFAIL"], ["NAME", "tnEXPECTFAIL"], ["NAME", "tn"], ["NAME", "t", "n"], ["NAME", "tn", "EXPECT", "FAIL"],
              ["EXPECTFAIL", "NAME", "tn"], ["EXPECTFAILNAME", "NAME", "tn"], ["NAME", "tn", "x", "y"], ["NAME", "tn", "xy"],
              ["NAME", "tnx", "y"], ["NAMEtn", "NAME", "tn"], ["NAME", "tnNAME", "tn"]]


def pair_events(cmd, doc, a, b):
    one = lambda args: ([{"k": cmd, "doc": doc, "args": list(args)}] + ([] if cmd == "add_test" else [{"k": "close"}]))
    evs = one(a) + one(b)
    if cmd == "ct_add_section":
        evs = [{"k": "ct_add_test", "doc": 0}] + evs
    return evs


def check_pair(job, case):
    msgs, dg, nt = modsearch.check_module(pair_events(*job), None, case)
    return {"viol": msgs, "obs": dg, "nt": dg, "cls": msgs[0].split(":")[0] if msgs else None}


def check_args(job, case):
    cmd, doc, args = job[:3]
    msgs, dg, nt = modsearch.check_module(case_events(*job), None, case)
    return {"viol": msgs, "obs": dg, "nt": dg, "cls": msgs[0].split(":")[0] if msgs else None}


def enabled(events, maxnest):
    st, kinds, inner = context(events)
    out = []
    if len(st) < maxnest:
        out += [{"k": "ct_add_test", "doc": 0}, {"k": "ct_add_test", "doc": 1, "expectfail": 1},
                {"k": "ct_add_test", "doc": 0, "impl": "macro"}]
        if inner in ("ct_add_test", "ct_add_section"):
            out += [{"k": "ct_add_section", "doc": 0}, {"k": "ct_add_section", "doc": 1, "expectfail": 1},
                    {"k": "ct_add_section", "doc": 1, "impl": "macro"}]
        out += [{"k": "function", "doc": 0, "params": []}, {"k": "if", "doc": 0}]
    out += [{"k": "add_test", "doc": 1}, {"k": "add_test", "doc": 0}, {"k": "set", "doc": 0}, {"k": "set", "doc": 1},
            {"k": "generic", "doc": 1}]
    if inner in ("ct_add_test", "ct_add_section") and len(st) < maxnest:
        out += [{"k": "ct_add_section", "doc": 0, "name": "same_section"}]      # a section name used more than once
    if st:
        out.append({"k": "close"})
    return out


def closed_plain_definitions(events):
    """has a plain function()/macro() already been opened and closed (capped at 1)? - part of the state: a helper
    definition inside a test body before a later section is a different situation than none"""
    st, n = [], 0
    for ev in events:
        if ev["k"] in cmakegen.OPENERS:
            st.append(ev["k"])
        elif ev["k"] == "close":
            n += st.pop() in ("function", "macro")
    return min(n, 1)


def _transition(h2, depth, case):
    msgs, dg, nt = modsearch.check_module(h2, None, case)
    return msgs, dg, nt, (modsearch.impl_key(h2, case) if len(h2) < depth else None)


def expand(history, maxnest, depth, case):
    out = []
    for ev in enabled(history, maxnest):
        h2 = history + [ev]
        msgs, dg, nt, impl = _transition(h2, depth, case)
        key = None
        if len(h2) < depth:
            key = (statespace.model_key(h2), impl, closed_plain_definitions(h2))
        out.append(modsearch.result(ev, key, msgs, dg, nt))
    return out


def run(ctx):
    quick = ctx.tier == "quick"
    k, maxnest, depth = (2, 3, 6) if quick else (4, 4, 9)
    case = common.rot(["lower", "upper", "mixed"], ctx.seed + 2)[0]
    jobs = [(cmd, doc, a) for cmd in ("add_test", "ct_add_test", "ct_add_section") for doc in (1, 0)
            for a in arg_lists(k)]
    # implementing definitions that declare parameters of their own
    for cmd in ("ct_add_test", "ct_add_section"):
        for doc in (1, 0):
            for args in (["NAME", "tname"], ["NAME", "tname", "EXPECTFAIL"], ["EXPECTFAIL", "NAME", '"plainq"']):
                for params in (["fixture"], ["fixture", "timeout"], ["fixture", "EXPECTFAIL"], ["a", "b", "c"], ["NAME", "other"]):
                    for impl in ("function", "macro"):
                        jobs.append((cmd, doc, args, params, impl))
    ctx.cov["bounds"] = {"max_other_arguments": k, "name_forms": NAMES, "pool": pool("<name>"),
                         "nesting": maxnest, "max_history": depth, "command_case": case}
    ctx.sweep(functools.partial(check_args, case=case), jobs, space="argument lists")
    pairs = [(cmd, doc, a, b) for cmd in ("add_test", "ct_add_test", "ct_add_section") for doc in (1, 0)
             for a in PAIR_LISTS for b in PAIR_LISTS]
    ctx.cov["bounds"]["pair_lists"] = PAIR_LISTS
    ctx.sweep(functools.partial(check_pair, case=case), pairs, space="two declarations in one module (every ordered pair)")
    ctx.bfs(functools.partial(expand, maxnest=maxnest, depth=depth, case=case),
            (statespace.model_key([]), None), depth, space="nesting bfs")
    ctx.assumptions += ["keywords are upper case; exactly one NAME pair per command; name is never itself a keyword"]
    return RULE


def replay(case):
    if isinstance(case, list) and case and isinstance(case[0], dict):
        events = case
    elif len(case) == 4:
        events = pair_events(*case)
    else:
        events = case_events(*case)
    for cs in ("lower", "upper", "mixed"):
        m = modsearch.check_module(events, None, cs)[0]
        if m:
            return m
    return []
