"""C10 - variable and option entries state type, default and help correctly (bounded-exhaustive inputs)."""
import functools
import itertools

from .. import common, modsearch

ID = "C10"
RULE = ("every set() with a name and every sequence of 0..K values over 14 value forms (identifier, 1-char, number, "
        "a;b, empty string, quoted incl. embedded escaped quotes and 1-char, reference, bracket arguments of level 0/1, "
        "keyword-like) and every option() over 4 help forms x 4 defaults, documented and undocumented, at 4 positions "
        "(top level, inside a function body, after a class, between two documented commands); oracle = reference model. "
        "non-trivial = an entry is expected; distinct by (command, arguments, doc, position)")

FORMS = ["v", "x", "1", "a;b", '""', '"q"', '"a b"', '"a\\"b"', '"\\""', '"x"', "${r}", "[[b c]]", "[=[z]=]", "CACHE",
         '"l1\nl2"', '"c\\\nd"', "SELF_VAR"]   # the last one equals the variable's own name   # quoted values with a real line break / a line continuation
CORE = ["v", '""', '"a b"', '"a\\"b"', "${r}", "[[b c]]"]
HELPS = ['"h"', '"help text"', "[[h]]", "${h}"]
DEFAULTS = [None, "ON", "OFF", "${d}"]
TALKATIVE = [["The :type: of this is up to the caller."], ["Doc.", "", ":type: path"], ["Doc.", "", ":Default value: none really"],
             ["See :Help text: below.", "", ":Help text: hand written"], [":type: path"]]


def positions(ev):
    return [[ev],
            [{"k": "function", "doc": 0, "params": []}, ev],
            [{"k": "cpp_class", "doc": 1}, {"k": "close"}, ev],
            [{"k": "generic", "doc": 1}, ev, {"k": "set", "doc": 1, "values": ["tail"]}],
            # ordinary undocumented commands that deal with variables around it
            [{"k": "generic", "doc": 0, "cmd": "unset", "args": ["OLD_VAR"]}, ev,
             {"k": "generic", "doc": 0, "cmd": "mark_as_advanced", "args": ["FORCE", "SELF_VAR"]},
             {"k": "generic", "doc": 0, "cmd": "set_property", "args": ["CACHE", "SELF_VAR", "PROPERTY", "STRINGS", "a", "b"]}]]


def check_multiline(events, case):
    """a value with a line break: the line-based observer cannot follow the field over the break, so the raw page is
    searched for the field text as written"""
    from .. import refmodel
    text, r = modsearch.run_module(events, None, case)
    exp = [e for e in refmodel.expected(events) if e["kind"] == "data" and e.get("value") and "\n" in e["value"]]
    msgs = []
    if r["page"] is None:
        msgs.append(f"error: pipeline failed on a well-formed module: {r['error']}")
    else:
        for e in exp:
            if f".. data:: {e['name']}" not in r["page"]:
                msgs.append(f"entries: no variable entry for {e['name']}")
            if f":Default value: {e['value']}\n" not in r["page"]:
                msgs.append(f"var-default: entry {e['name']}: default value text {e['value']!r} not shown as written")
            if f":type: {e['type']}" not in r["page"]:
                msgs.append(f"var-type: entry {e['name']}: type {e['type']} not shown")
    return msgs, common.digest(r["page"] or ""), bool(exp)


def check_between(job, case):
    """an undocumented/documented option() written between a test/section/member declaration and the definition that
    implements it still is an option(): only its own entry is judged"""
    from .. import rstobs
    decl, doc = job
    between = [("option", ["BETWEEN_OPT", '"help between"', "ON"])]
    if decl == "cpp_member":
        events = [{"k": "cpp_class", "doc": 0}, {"k": "cpp_member", "doc": doc, "types": ["int"], "params": ["a"], "between": between}]
    elif decl == "ct_add_section":
        events = [{"k": "ct_add_test", "doc": 0}, {"k": "ct_add_section", "doc": doc, "between": between}]
    else:
        events = [{"k": "ct_add_test", "doc": doc, "between": between}]
    text, r = modsearch.run_module(events, None, case)
    msgs = []
    if r["page"] is None:
        msgs.append(f"error: pipeline failed on a well-formed module: {r['error']}")
    else:
        ents = [rstobs.abstract_entry(b) for b in rstobs.Page(r["page"]).entries()]
        opts = [e for e in ents if e["kind"] == "option" and e["sig"] == "BETWEEN_OPT"]
        if len(opts) != 1:
            msgs.append(f"entries: option() written between a {decl} declaration and its implementation has {len(opts)} entries")
        else:
            f = dict(opts[0]["fields"])
            if f.get("Default value") != "ON" or f.get("type") != "bool":
                msgs.append(f"option-fields: BETWEEN_OPT shows {opts[0]['fields']}")
    return {"viol": msgs, "obs": common.digest(r["page"] or ""), "nt": common.digest(job), "cls": msgs[0].split(":")[0] if msgs else None}


def check_cfg(job, case):
    """the same under a non-default configuration (job = (events, cfg items))"""
    from .. import refmodel, rstobs
    events, cfg = job[0], dict(job[1])
    text, r = modsearch.run_module(events, cfg, case)
    if r["page"] is None:
        msgs = [f"error: pipeline failed on a well-formed module: {r['error']}"]
    else:
        # only the variable and option entries are judged here (what becomes of the bodies' own entries is C08's business)
        exp = [e for e in refmodel.expected(events, cfg) if e["kind"] in ("option", "data")]
        obs = [e for e in (rstobs.abstract_entry(b) for b in rstobs.Page(r["page"]).entries()) if e["kind"] in ("option", "data")]
        msgs = refmodel.compare(exp, obs)
    dg, nt = common.digest(r["page"] or ""), True
    msgs = [f"{m}   [config {cfg}]" for m in msgs]
    return {"viol": msgs, "obs": dg, "nt": common.digest([events, cfg]) if nt else None, "cls": msgs[0].split(":")[0] if msgs else None,
            "case": {"events": events, "cfg": cfg}}


def check(events, case):
    if any("\n" in v for ev in events for v in ev.get("values", [])):
        msgs, dg, nt = check_multiline(events, case)
    else:
        msgs, dg, nt = modsearch.check_module(events, None, case)
    return {"viol": msgs, "obs": dg, "nt": common.digest(events) if nt else None,
            "cls": msgs[0].split(":")[0] if msgs else None}


def run(ctx):
    quick = ctx.tier == "quick"
    k_all, k_core = (2, 3) if quick else (3, 5)
    seqs = [list(s) for n in range(k_all + 1) for s in itertools.product(FORMS, repeat=n)]
    seqs += [list(s) for n in range(k_all + 1, k_core + 1) for s in itertools.product(CORE, repeat=n)]
    jobs = []
    for vals in seqs:
        for doc in (1, 0):
            for p in positions({"k": "set", "doc": doc, "values": vals, "name": "SELF_VAR"}):
                jobs.append(p)
    for h in HELPS:
        for d in DEFAULTS:
            for doc in (1, 0):
                ev = {"k": "option", "doc": doc, "help": h}
                if d:
                    ev["default"] = d
                jobs += positions(ev)
    # documented with a doccomment that has no text at all
    for vals in ([], ["v"], ["a", "b"], ['""'], ['"q"']):
        for dt in ([], [""]):
            jobs += positions({"k": "set", "doc": 1, "values": vals, "name": "SELF_VAR", "doctext": dt})
    for dt in ([], [""]):
        jobs += positions({"k": "option", "doc": 1, "doctext": dt})
    # the same declaration twice (e.g. in two branches): both keep their entry
    for ev in ({"k": "option", "doc": 0, "name": "TWIN_OPT"}, {"k": "option", "doc": 1, "name": "TWIN_OPT", "doctext": ["Same."]},
               {"k": "set", "doc": 1, "name": "TWIN_VAR", "values": ["v"], "doctext": ["Same."]}):
        jobs.append([{"k": "if", "doc": 0}, dict(ev), {"k": "close"}, {"k": "if", "doc": 0}, dict(ev), {"k": "close"}])
        jobs.append([dict(ev), {"k": "generic", "doc": 0}, dict(ev), dict(ev)])
    # CMake's own keywords at the end of the value list are values like any other
    for head in ([], ["v"], ["${r}"], ['"a b"'], ["a", "b"]):
        for tail in (["PARENT_SCOPE"], ["CACHE", "BOOL", '"doc"'], ["CACHE", "STRING", '"doc"', "FORCE"],
                     ["CACHE", "INTERNAL", '""'], ["PARENT_SCOPE", "x"], ["FORCE"]):
            for doc in (1, 0):
                jobs += positions({"k": "set", "doc": doc, "values": head + tail, "name": "SELF_VAR"})
    # doccomment text that talks about the generated fields, or carries hand-written fields of the same name
    for dt in TALKATIVE:
        for vals in ([], ["v"], ["a", "b"]):
            jobs += positions({"k": "set", "doc": 1, "values": vals, "name": "SELF_VAR", "doctext": dt})
        for d in (None, "ON"):
            ev = {"k": "option", "doc": 1, "doctext": dt}
            if d:
                ev["default"] = d
            jobs += positions(ev)
    # an ordinary comment between the doccomment and its command
    for gap in ("# plain comment", "#[[ bracket comment ]]", "#[==[ two\nlines ]==]", "# one\n# two"):
        gap = gap.replace("\\n", "\n")
        for vals in ([], ["v"], ["a", "b"]):
            jobs += positions({"k": "set", "doc": 1, "values": vals, "name": "SELF_VAR", "docgap": gap})
        jobs += positions({"k": "option", "doc": 1, "docgap": gap})
    # values that refer to variables documented earlier in the module stay as written; options after options with other defaults
    for first in (['"/opt/acme"'], ["a", "b"], ['""']):
        for second in (['"${BASE_DIR}/bin"'], ["${BASE_DIR}", "x"], ["${BASE_DIR}"], ['"\\${BASE_DIR}"']):
            jobs.append([{"k": "set", "doc": 1, "name": "BASE_DIR", "values": first}, {"k": "set", "doc": 1, "name": "DERIVED", "values": second}])
            jobs.append([{"k": "set", "doc": 1, "name": "BASE_DIR", "values": first}, {"k": "option", "doc": 1, "name": "USE_IT", "help": '"use ${BASE_DIR}"', "default": "${BASE_DIR}"}])
    for d1 in ("ON", "${THREADS_FOUND}", '"text"'):
        for doc in (1, 0):
            jobs.append([{"k": "option", "doc": doc, "name": "FIRST_OPT", "default": d1}, {"k": "option", "doc": doc, "name": "SECOND_OPT"},
                         {"k": "option", "doc": 1 - doc, "name": "THIRD_OPT"}])
    # commands that differ only in where the blanks between their arguments sit
    for a, b in ((["core", "util"], ["coreutil"]), ([], None), (["x;y"], ["x", ";y"]), (["a", "b", "c"], ["ab", "c"])):
        if b is None:
            jobs.append([{"k": "set", "doc": 1, "name": "OUTDIR", "values": []}, {"k": "set", "doc": 1, "name": "OUT", "values": ["DIR"]}])
            jobs.append([{"k": "option", "doc": 0, "name": "WITHX", "help": "h"}, {"k": "option", "doc": 0, "name": "WITH", "help": "Xh"}])
        else:
            for first, second in ((a, b), (b, a)):
                jobs.append([{"k": "set", "doc": 1, "name": "BASE_LIBS", "values": first}, {"k": "set", "doc": 1, "name": "BASE_LIBS", "values": second}])
    # names that look private
    for nm in ("_PRIVATE_OPT", '"_QUOTED_OPT"', "__DUNDER__", "_"):
        for doc in (1, 0):
            jobs += positions({"k": "option", "doc": doc, "name": nm, "default": "ON"})
        jobs += positions({"k": "set", "doc": 1, "name": nm, "values": ["v"]})
    case = common.rot(["lower", "upper", "mixed"], ctx.seed + 4)[0]
    ctx.cov["bounds"] = {"value_forms": FORMS, "core": CORE, "max_values_all_forms": k_all, "max_values_core": k_core,
                         "helps": HELPS, "defaults": DEFAULTS, "positions": 5, "command_case": case}
    ctx.sweep(functools.partial(check, case=case), jobs, space="set/option x forms x positions")
    bjobs = [(d, doc) for d in ("ct_add_test", "ct_add_section", "cpp_member") for doc in (0, 1)]
    ctx.sweep(functools.partial(check_between, case=case), bjobs, space="option between a declaration and its implementation",
              selftest=2)
    # options and variables inside class/test/function bodies while the enclosing kind's undocumented entries are switched off
    cj = []
    for off in (("cpp_class",), ("ct_add_test", "ct_add_section"), ("function", "macro"), ("cpp_class", "cpp_member", "cpp_attr")):
        cfg = tuple(("include_undocumented_" + k, False) for k in off)
        for doc in (0, 1):
            opt = {"k": "option", "doc": doc, "default": "ON"}
            st = {"k": "set", "doc": 1, "values": ["v"]}
            for body in ([{"k": "cpp_class", "doc": 0}, dict(opt), dict(st)], [{"k": "ct_add_test", "doc": 0}, dict(opt), {"k": "ct_add_section", "doc": 0}, dict(opt)],
                         [{"k": "function", "doc": 0, "params": []}, dict(opt), dict(st)], [{"k": "cpp_class", "doc": 0}, {"k": "cpp_class", "doc": 0}, dict(opt), {"k": "close"}, dict(opt)]):
                cj.append((body, cfg))
    ctx.sweep(functools.partial(check_cfg, case=case), cj, space="option/set inside bodies x switched-off kinds", selftest=1)
    # a sibling file with the same layout whose commands are documented, documented in the same process just before
    from .C04 import check_shadow
    sh = []
    for ev in ({"k": "option", "doc": 1}, {"k": "option", "doc": 1, "default": "ON"}, {"k": "set", "doc": 1, "values": ["v"]},
               {"k": "set", "doc": 1, "values": ["a", "b"]}):
        sh += [(p,) for p in positions(ev)]
    ctx.sweep(check_shadow, sh, space="same-layout sibling documented in between", selftest=1, chunk=1)
    ctx.assumptions += ["the default of an UNSET variable is not compared (no value text exists)",
                        "an option's help text is compared modulo one pair of surrounding quotes"]
    return RULE


def replay(case):
    if isinstance(case, dict) and "cfg" in case:
        for cs in ("lower", "upper", "mixed"):
            m = check_cfg((case["events"], tuple(case["cfg"].items())), cs)["viol"]
            if m:
                return m
        return []
    if isinstance(case, dict) and "shadow" in case:
        from .C04 import check_shadow
        return common.in_fork(check_shadow, (case["shadow"],))["viol"]
    if isinstance(case, list) and len(case) == 2 and isinstance(case[0], str):
        for cs in ("lower", "upper", "mixed"):
            m = check_between(tuple(case), cs)["viol"]
            if m:
                return m
        return []
    for cs in ("lower", "upper", "mixed"):
        m = check(case, cs)["viol"]
        if m:
            return m
    return []
