"""C20 - RSTWriter serialisation is pure and keeps nested content indented.

Explicit-state exploration of histories of public-API operations on a cursor (the writer or the innermost
open directive/section).  Every history up to the bound is executed on a fresh real RSTWriter and on a
boring reference document (nested lists); see DESIGN.md section 4, C20.
"""
import itertools

from .. import common

ID = "C20"
RULE = ("every history of <= N writer-API operations (alphabet in coverage.bounds.alphabet) with nesting <= D, "
        "executed on a fresh RSTWriter; non-trivial = the reference document has >= 1 element besides the title; "
        "distinct = by digest of the reference document")

MULTI = "line one\n  two more\n\nafter blank"
INDENTED = "  every line\n    has its own\n  leading spaces"
TITLES = ["T", "Title 7", "A title of exactly forty characters long."[:40], "データ e\u0301 ｗ"]

# ---------------------------------------------------------------- alphabet


WS_OWN = "    literal a\n    \n    literal b\n "     # a line of four spaces and a line of one space: spaces of the text itself


def alphabet():
    return [("text", "single line"), ("text", MULTI), ("text", INDENTED), ("text", WS_OWN), ("field", "fname", "fval"),
            ("bul", "i1", "i2"), ("enum",) + tuple(f"e{n}" for n in range(1, 11)),
            ("enum", "run the tests", "install", "run the tests", "run the tests"),      # items may repeat
            ("dir", "note"), ("dir", "function", "f(a b)"),
            ("opt", "maxdepth", "2"),
            ("sec", "Sub"), ("up",), ("title", "New"), ("title", "A considerably longer title"), ("title_same",),
            ("clear",), ("ser",)]


class Ref:
    """Reference document: nested lists built by the same operations."""

    def __init__(self, kind, title, level=0, depth=0, args=()):
        self.kind, self.title, self.level, self.depth, self.args = kind, title, level, depth, args
        self.options, self.items = [], []

    def canon(self):
        return [self.kind, self.title, list(self.args), self.options,
                [i.canon() if isinstance(i, Ref) else i for i in self.items]]

    def lines(self, headers):
        """expected non-blank lines, right-stripped"""
        out = []
        if self.kind == "dir":
            ind = "   " * (self.depth - 1)
            out.append((ind + f".. {self.title}:: " + ",".join(self.args)).rstrip())
            for k, v in self.options:
                out.append(("   " * self.depth + f":{k}: {v}").rstrip())
        else:
            c = headers[self.level]
            out += [c * len(self.title), self.title, c * len(self.title)]
        ind = "   " * self.depth
        for it in self.items:
            if isinstance(it, Ref):
                out += it.lines(headers)
            elif it[0] == "text":
                out += [(ind + l).rstrip() for l in it[1].split("\n")]
            elif it[0] == "field":
                out.append(f"{ind}:{it[1]}: {it[2]}")
            elif it[0] == "bul":
                out += [f"{ind}* {x}" for x in it[1:]]
            elif it[0] == "enum":
                out += [f"{ind}{n + 1}. {x}" for n, x in enumerate(it[1:])]
        return [l for l in out if l.strip()]


def ref_ws_lines(ref):
    """lengths of the expected whitespace-only lines that carry spaces of their OWN (a paragraph line made of k>0 spaces is
    emitted as 3*d + k spaces); k is chosen = 1 mod 3 in the alphabet so that such a line cannot be mistaken for a bare
    indentation line"""
    out = []
    ind = 3 * ref.depth
    for it in ref.items:
        if isinstance(it, Ref):
            out += ref_ws_lines(it)
        elif it[0] == "text":
            out += [ind + len(l) for l in it[1].split("\n") if l and not l.strip()]
    return out


def enabled(stack_kinds, opts_on_cursor, maxnest):
    """which operations the domain allows at a cursor; stack_kinds e.g. ['doc','dir','dir']"""
    cur = stack_kinds[-1]
    res = []
    for op in alphabet():
        k = op[0]
        if k == "opt" and cur != "dir":
            continue
        if k == "sec" and (cur == "dir" or len(stack_kinds) > maxnest):
            continue  # sections inside directives are outside the statement (it speaks of directives)
        if k == "dir" and len(stack_kinds) > maxnest:
            continue
        if k == "up" and len(stack_kinds) == 1:
            continue
        if k == "clear" and cur == "dir" and opts_on_cursor:
            continue  # whether clear() keeps a directive's options is not stated anywhere
        res.append(op)
    return res


def settings_for(headers):
    from cminx.config import Settings, RSTSettings
    if headers is None:
        return Settings()
    return Settings(rst=RSTSettings(headers=list(headers)))


def build(ops, title, headers, with_ser=True):
    """run ops on the real writer and on the reference; returns (writer, ref, serialisations)"""
    from cminx.rstwriter import RSTWriter
    w = RSTWriter(title, settings=settings_for(headers))
    ref = Ref("doc", title)
    stack = [(w, ref)]
    sers = []
    for op in ops:
        cur, r = stack[-1]
        k = op[0]
        if k == "text":
            cur.text(op[1]); r.items.append(["text", op[1]])
        elif k == "field":
            cur.field(op[1], op[2]); r.items.append(["field", op[1], op[2]])
        elif k == "bul":
            cur.bulleted_list(*op[1:]); r.items.append(["bul"] + list(op[1:]))
        elif k == "enum":
            cur.enumerated_list(*op[1:]); r.items.append(["enum"] + list(op[1:]))
        elif k == "dir":
            d = cur.directive(op[1], *op[2:])
            rd = Ref("dir", op[1], depth=r.depth + 1, args=tuple(op[2:]))
            r.items.append(rd); stack.append((d, rd))
        elif k == "opt":
            cur.option(op[1], op[2]); r.options.append([op[1], op[2]])
        elif k == "sec":
            s = cur.section(op[1])
            rs = Ref("doc", op[1], level=r.level + 1, depth=0)
            r.items.append(rs); stack.append((s, rs))
        elif k == "up":
            stack.pop()
        elif k == "title":
            cur.title = op[1]; r.title = op[1]
        elif k == "title_same":      # a different title of exactly the same length
            t = r.title[:-1] + ("Z" if r.title[-1:] != "Z" else "Y")
            cur.title = t; r.title = t
        elif k == "clear":
            cur.clear(); r.items = []
        elif k == "ser":
            if with_ser:
                sers.append(w.to_text())
        else:
            raise common.HarnessFault(f"unknown op {op}")
    return w, ref, sers


def graph(o, depth=0):
    """structural snapshot of the writer's object graph (recursive vars)"""
    if depth > 40:
        return "..."
    if isinstance(o, (str, int, float, bool, type(None))):
        return o
    if isinstance(o, (list, tuple)):
        return [graph(x, depth + 1) for x in o]
    if isinstance(o, dict):
        return {str(k): graph(v, depth + 1) for k, v in o.items()}
    import enum
    if isinstance(o, enum.Enum) or not type(o).__module__.startswith("cminx.rstwriter"):
        return repr(o)
    if hasattr(o, "__dict__"):
        return {"__class__": type(o).__name__,
                **{k: graph(v, depth + 1) for k, v in sorted(vars(o).items())}}
    return repr(o)


def check(ops, title, headers):
    """returns (violations, ref_digest, out_digest, nontrivial)"""
    from cminx.rstwriter import RSTWriter
    hdr = list(headers) if headers is not None else ['#', '*', '=', '-', '_', '~', '!', '&', '@', '^']
    viol = []
    class_default = list(RSTWriter.heading_level_chars)
    try:
        w, ref, sers = build(ops, title, headers)
        g0 = graph(w)
        t1 = w.to_text()
    except Exception as e:      # the public writer API failing on a well-formed operation sequence
        return [f"error: {type(e).__name__} raised by the writer API: {str(e)[:100]}"], common.digest(["error", ops]), "", True
    g1 = graph(w)
    t2 = w.to_text()
    t3 = str(w)
    if t1 != t2:
        viol.append("purity: to_text() twice gives different text")
    if t3 != t1:
        viol.append("purity: str(writer) differs from to_text()")
    if g0 != g1:
        viol.append("purity: serialising changed the document object graph")
    if list(RSTWriter.heading_level_chars) != class_default:
        viol.append("purity: class-level header characters were mutated")
    got = [l.rstrip() for l in t1.split("\n") if l.strip()]
    exp = ref.lines(hdr)
    if got != exp:
        i = next((i for i, (a, b) in enumerate(itertools.zip_longest(got, exp)) if a != b), 0)
        viol.append(f"layout: non-blank line {i}: got {got[i] if i < len(got) else None!r} "
                    f"expected {exp[i] if i < len(exp) else None!r}")
    want_ws = sorted(ref_ws_lines(ref))
    got_ws = sorted(len(l) for l in t1.split("\n") if l and not l.strip() and len(l) % 3 == 1)
    if got_ws != want_ws:
        viol.append(f"layout: whitespace-only paragraph lines: expected lines of lengths {want_ws} (3*d spaces + the text's own), got {got_ws}")
    if any(o[0] == "ser" for o in ops):
        w2, _, _ = build(ops, title, headers, with_ser=False)
        if w2.to_text() != t1:
            viol.append("purity: document built with interleaved serialisations serialises differently")
    return viol, common.digest(ref.canon()), common.digest(t1), bool(ref.items)


# ---------------------------------------------------------------- exhaustive enumeration (sharded DFS)

def _stack_after(ops):
    kinds, opts = ["doc"], [0]
    for op in ops:
        if op[0] == "dir":
            kinds.append("dir"); opts.append(0)
        elif op[0] == "sec":
            kinds.append("doc"); opts.append(0)
        elif op[0] == "up":
            kinds.pop(); opts.pop()
        elif op[0] == "opt":
            opts[-1] += 1
    return kinds, opts


def shard(job):
    """enumerate every extension of `prefix` up to `depth` total operations; check each history"""
    prefix, depth, maxnest, title, headers = job
    prefix = [tuple(o) for o in prefix]
    n = 0
    viols = {}
    refmap = {}
    nontriv = set()
    stack = [prefix]
    other = None
    while stack:
        ops = stack.pop()
        v, rd, od, nt = check(ops, title, headers)
        n += 1
        if nt:
            nontriv.add(rd)
        prev = refmap.setdefault(rd, (od, ops))
        if prev[0] != od:
            v = v + ["differential: an equal document reached by another history serialises differently"]
            other = prev[1]
        for m in v:
            c = m.split(" ")[0] + (" " + m.split(":")[1].strip()[:40] if m.startswith("purity") else "")
            if c not in viols or len(viols[c][0]) > len(ops):
                viols[c] = (ops, v, other if c.startswith("differential") else None)
        if len(ops) < depth:
            kinds, opts = _stack_after(ops)
            for op in reversed(enabled(kinds, opts[-1], maxnest)):
                stack.append(ops + [op])
    return {"n": n, "viols": viols, "refmap": refmap, "nontriv": nontriv}


def prefixes(k, maxnest):
    out = [[]]
    allp = [[]]
    for _ in range(k):
        nxt = []
        for p in out:
            kinds, opts = _stack_after(p)
            for op in enabled(kinds, opts[-1], maxnest):
                nxt.append(p + [op])
        out = nxt
        allp += nxt
    return out, allp


def run(ctx):
    quick = ctx.tier == "quick"
    depth, maxnest = (5, 3) if quick else (6, 4)
    s = ctx.seed
    titles = common.rot(TITLES, s)
    configs = [(titles[0], None, depth), (titles[1], ("=", "-", "~", "^", "+"), depth - 1),
               (titles[2], None, depth - 2), (titles[3], ("=", "-", "~", "^", "+"), depth - 2),
               # a header list in which characters repeat (levels are positions, not characters)
               (titles[0], ("=", "=", "-", "=", "~"), depth - 2),
               # header characters that mean something to str.format / %-formatting / regular expressions
               (titles[1], ("{", "}", "%", "\\", "$"), depth - 2), (titles[2], ("}", "{", "*", "^", "."), depth - 3)]
    ctx.cov["bounds"] = {"max_operations": depth, "max_nesting": maxnest,
                         "alphabet": [list(o) for o in alphabet()],
                         "configs": [{"title": t, "headers": h, "depth": d} for t, h, d in configs]}
    for title, headers, d in configs:
        split = 2 if d <= 4 else 3
        leaves, allp = prefixes(split, maxnest)
        # histories shorter than the split depth are checked here, the rest in shards
        jobs = [(p, len(p), maxnest, title, headers) for p in allp if len(p) < split]
        jobs += [(p, d, maxnest, title, headers) for p in leaves]
        results = common.pmap(shard, jobs, chunk=1)
        merged = {}
        best = {}
        for job, r in zip(jobs, results):
            ctx.cov["evaluations"] += r["n"]
            ctx.cov["traces_validated_against_impl"] += r["n"]
            ctx.cov["transitions"] += r["n"]
            ctx.nontrivial |= r["nontriv"]
            for c, (ops, v, oth) in r["viols"].items():
                best.setdefault(c, []).append((len(ops), [list(o) for o in ops], v, [list(o) for o in oth] if oth else None))
            if d <= 5:  # cross-shard differential (kept in memory only up to this size)
                for rd, (od, ops) in r["refmap"].items():
                    prev = merged.setdefault(rd, (od, ops))
                    if prev[0] != od:
                        ctx.violation({"ops": [list(o) for o in ops], "other_ops": [list(o) for o in prev[1]],
                                       "title": title, "headers": headers},
                                      ["differential: equal documents reached through different shards serialise differently"],
                                      cls="differential")
            ctx.obs |= {od for od, _ in r["refmap"].values()}
            ctx.cov["states"] += len(r["refmap"])
        for c, lst in best.items():  # shortest history first: the easiest counter-example to read
            lst.sort(key=lambda t: (t[0], t[1]))
            for _, ops, v, oth in lst:
                case = {"ops": ops, "title": title, "headers": headers}
                if oth:
                    case["other_ops"] = oth
                ctx.violation(case, v, cls=c)
        ctx.cov["max_depth"] = max(ctx.cov["max_depth"], d)
        ctx.cov["spaces"][f"title={title!r} headers={'default' if headers is None else ''.join(headers)} depth<={d}"] = \
            sum(r["n"] for r in results)
    # deep chains: d nested directives (d up to 12) with one element of every kind at the bottom and on the way up
    deep = []
    for d in range(1, 13):
        ops = [("dir", "note")] * d + [("opt", "maxdepth", "2"), ("text", MULTI), ("text", INDENTED), ("field", "fname", "fval"),
                                       ("bul", "i1", "i2"), ("enum",) + tuple(f"e{n}" for n in range(1, 11)),
                                       ("enum", "run the tests", "install", "run the tests", "run the tests"), ("ser",)]
        ops += [("up",), ("text", "single line")] * (d - 1)
        deep.append(ops)
    # paragraph lines that hold characters which str.splitlines() (but not a "\n" split) treats as line breaks, and
    # carriage returns: one "\n"-delimited line of a paragraph is one line of the output, at every depth 0..4
    odd_texts = ["page one\x0c page two", "a\x0b b\x1c c\x1d d\x1e e", "nel\x85 ls\u2028 ps\u2029 end",
                 "first\x0c half\n  second\u2028 half\n\nthird\x85", "cr\r in the middle", "\x0c", "  \x0c lead"]
    for d in range(0, 5):
        for t in odd_texts:
            deep.append([("dir", "note")] * d + [("text", t), ("field", "fname", "fval"), ("ser",)])
            if d:
                deep.append([("dir", "note")] * d + [("opt", "maxdepth", "2"), ("text", "single line"), ("text", t)])
    ctx.cov["bounds"]["odd_paragraph_texts"] = odd_texts
    for ops in deep:
        v, rd, od, nt = check(ops, titles[0], None)
        ctx.cov["evaluations"] += 1
        ctx.cov["traces_validated_against_impl"] += 1
        ctx.cov["transitions"] += 1
        if v:
            ctx.violation({"ops": [list(o) for o in ops], "title": titles[0], "headers": None}, v, cls="deep-chain " + v[0].split(":")[0])
    ctx.cov["bounds"]["deep_chains_up_to_depth"] = 12
    ctx.sample({"ops": [["dir", "function", "f(a b)"], ["opt", "maxdepth", "2"], ["text", MULTI], ["ser"], ["up"]],
                "title": titles[0], "headers": None})
    ctx.sample({"ops": [list(o) for o in leaves[len(leaves) // 2]], "title": title, "headers": headers})
    ctx.assumptions += ["sections are only opened on the writer or a section, not inside directives (statement speaks of directives)",
                        "clear() on a directive that has options is not generated (unspecified)",
                        "trailing whitespace of a line is not compared; blank lines are not compared"]
    return RULE


def replay(case):
    if "ops" not in case:
        return []
    ops = [tuple(o) for o in case["ops"]]
    hdr = tuple(case["headers"]) if case.get("headers") else None
    v, _, od, _ = check(ops, case["title"], hdr)
    if case.get("other_ops"):
        _, _, od2, _ = check([tuple(o) for o in case["other_ops"]], case["title"], hdr)
        if od != od2:
            v = v + ["differential: an equal document reached by another history serialises differently"]
    return v
