"""C08 - include_undocumented_* options only affect commands without a doccomment.

Every balanced module up to a bound x option combinations.  The parse tree of a module is built once; the real
listener and renderer run once per configuration on it (through the public Documenter, whose parser's cmake_file
is bound to the cached tree).
"""
import functools
import itertools
import re

from .. import common, cmakegen, modsearch, pipeline, rstobs
from ..cmakegen import name_of, doc_lines
from ..statespace import context
from ..refmodel import INCLUDE_KINDS

ID = "C08"
RULE = ("all well-formed histories (balanced by closure) of <=N events over the ten K-kinds (documented and "
        "undocumented) plus set/generic by-standers, crossed with option combinations: all 2^10 for short modules, and "
        "for longer ones the full product over the kinds present x {all-on, all-off, each single flag off} over the "
        "others.  Oracle: (1) every doccomment-carrying command (members of hidden classes excepted) has its own entry "
        "text byte-equal to the default rendering, (2) no entry for an undocumented K-command with K off, members only "
        "inside a shown class.  non-trivial = module has >=1 documented and >=1 undocumented K-command; distinct by "
        "(module, configuration) page digest")

FLAGS = ["include_undocumented_" + k for k in INCLUDE_KINDS]


def enabled(events, maxnest):
    st, kinds, inner = context(events)
    out = []
    D = (1, 0)
    if len(st) < maxnest:
        out += [{"k": "function", "doc": d, "params": ["p"]} for d in D]
        out += [{"k": "macro", "doc": d, "params": []} for d in D]
        out += [{"k": "cpp_class", "doc": d, "bases": []} for d in D]
        out += [{"k": "ct_add_test", "doc": d} for d in D]
        if inner == "cpp_class":
            out += [{"k": "cpp_member", "doc": d, "types": ["int"], "params": ["a"]} for d in D]
            out += [{"k": "cpp_constructor", "doc": d, "types": [], "params": []} for d in D]
        if inner in ("ct_add_test", "ct_add_section"):
            out += [{"k": "ct_add_section", "doc": d} for d in D]
    if inner == "cpp_class":
        out += [{"k": "cpp_attr", "doc": d, "default": "v"} for d in D]
    out += [{"k": "add_test", "doc": d} for d in D] + [{"k": "option", "doc": d} for d in D]
    out += [{"k": "set", "doc": 1}, {"k": "generic", "doc": 1}]
    # a cmake_parse_arguments call (marks the innermost open definition) and a second definition of an already
    # defined name (e.g. in the other branch of an if)
    if any(k in ("function", "macro") for k in kinds):
        out += [{"k": "cmake_parse_arguments"}]
    if len(st) < maxnest:
        out += [{"k": "function", "doc": d, "name": "same_fn", "params": ["p"]} for d in D]
    # a doccomment without text still is a doccomment
    out += [{"k": "option", "doc": 1, "doctext": []}]
    if inner == "cpp_class":
        out += [{"k": "cpp_attr", "doc": 1, "doctext": [""], "default": "v"}]
    if st:
        out.append({"k": "close"})
    return out


def all_configs():
    return [dict(zip(FLAGS, bits)) for bits in itertools.product((True, False), repeat=len(FLAGS))]


def single_configs():
    out = [dict.fromkeys(FLAGS, True), dict.fromkeys(FLAGS, False)]
    for f in FLAGS:
        d = dict.fromkeys(FLAGS, True)
        d[f] = False
        out.append(d)
    return out


def reduced_configs(events):
    present = sorted({"include_undocumented_" + ev["k"] for ev in events if ev["k"] in INCLUDE_KINDS})
    others = [f for f in FLAGS if f not in present]
    bg = [dict.fromkeys(others, True), dict.fromkeys(others, False)]
    for f in others:
        d = dict.fromkeys(others, True)
        d[f] = False
        bg.append(d)
    out = []
    for bits in itertools.product((True, False), repeat=len(present)):
        for b in bg:
            c = dict(b)
            c.update(zip(present, bits))
            out.append(c)
    return out


# ---------------------------------------------------------------- one module under many configurations

class Cached:
    """module text written once, parse tree built once"""

    def __init__(self, events, case, layout=None):
        self.events = cmakegen.close(events)
        self.text = cmakegen.render(cmakegen.items(self.events, case), layout)
        self.path = pipeline.write_tmp(self.text)
        self.tree = None
        try:
            # the cached-tree shortcut relies on Documenter internals (parser.cmake_file); it is used only if it is
            # observably equivalent to a fresh Documenter on this module, otherwise every configuration parses afresh
            tree, _ = pipeline.parse_tree(self.text)
            self.tree = tree
            dflt = dict.fromkeys(FLAGS, True)
            cached = self.page(dflt)
            self.tree = None
            fresh = self.page(dflt)
            self.tree = tree if cached == fresh else None
        except Exception:
            self.tree = None

    def page(self, cfg, agg_class=None):
        from cminx.documenter import Documenter
        import cminx.documenter as dm
        s = modsearch.settings_of(cfg)
        saved = dm.DocumentationAggregator
        if agg_class is not None:
            dm.DocumentationAggregator = agg_class
        try:
            with common.quiet():
                d = Documenter(self.path, "Title", "mod", s)
                if self.tree is not None:
                    d.parser.cmake_file = lambda: self.tree
                return d.process().to_text()
        finally:
            dm.DocumentationAggregator = saved


def own_rendering(b):
    """the text of an entry that belongs to the command itself: heading, options, own lines (captions and the
    inner-class list excepted), notes/warnings; nested members belong to other commands"""
    own = [l for l in b.own_text() if not l.strip().startswith("**") and not l.strip().startswith("* :class:")]
    own = rstobs.strip_blank(own)
    adm = [(c.name, c.arg, tuple(rstobs.strip_blank(c.own_text()))) for c in b.children
           if c.name in ("note", "warning")]
    return (b.name, b.arg, tuple(b.options), tuple(own), tuple(adm))


def index_page(text):
    """marker -> own rendering for every block; heading names -> count"""
    page = rstobs.Page(text)
    by_marker, names = {}, {}
    for top in page.blocks:
        for b in top.walk():
            if b.name in ("note", "warning", "module"):
                continue
            r = own_rendering(b)
            nm = b.arg.split("(")[0].strip()
            names[nm] = names.get(nm, 0) + 1
            for l in r[3]:
                m = re.match(r"Doc marker ([\w]+-\d+)\.$", l)
                if m:
                    by_marker.setdefault(m.group(1), []).append((r, top is b))
    return by_marker, names


def hidden_classes(events, cfg):
    """for each event index: is its innermost enclosing class hidden (or absent)"""
    st, res = [], {}
    for i, ev in enumerate(events):
        k = ev["k"]
        cls = next((j for kk, j in reversed(st) if kk == "cpp_class"), None)
        if cls is None:
            res[i] = True
        else:
            res[i] = res_hidden[cls]
        if k in cmakegen.OPENERS:
            st.append((k, i))
            if k == "cpp_class":
                res_hidden[i] = not (ev.get("doc") or cfg["include_undocumented_cpp_class"])
        elif k == "close":
            st.pop()
    return res


res_hidden = {}


def judge(events, cfg, text, base_index):
    msgs = []
    res_hidden.clear()
    hid = hidden_classes(events, cfg)
    by_marker, names = index_page(text)
    for i, ev in enumerate(events):
        k = ev["k"]
        if k in ("close", "comment", "cmake_parse_arguments"):
            continue
        member = k in ("cpp_attr", "cpp_member", "cpp_constructor")
        nm = name_of(ev, i) if k != "cpp_constructor" else "CTOR"
        if ev.get("doc") and "doctext" in ev and not any(ev["doctext"]):
            # documented with an empty doccomment: no marker to look for, the entry is found by its (unique) name
            if member and hid[i]:
                continue
            if not names.get(nm, 0):
                msgs.append(f"documented-lost: entry of {k} {nm} (documented with an empty doccomment) is missing")
            continue
        if ev.get("doc"):
            mk = f"{k}-{i}"
            got = by_marker.get(mk, [])
            if member and hid[i]:
                if got:
                    msgs.append(f"member-of-hidden-class: documented {k} {nm} is shown although its class is not")
                continue
            if len(got) != 1:
                msgs.append(f"documented-lost: entry of documented {k} {nm} occurs {len(got)} times (expected once)")
                continue
            base = base_index.get(mk, [])
            if len(base) == 1 and base[0] != got[0]:
                msgs.append(f"documented-altered: entry of documented {k} {nm} differs from its default rendering: "
                            f"{got[0][0]!r} vs {base[0][0]!r}")
        elif k in INCLUDE_KINDS and not cfg["include_undocumented_" + k] and k != "cpp_constructor":
            # entries carrying this name may only stem from the commands of that name that are to be shown
            allowed = 0
            for j, e2 in enumerate(events):
                if e2["k"] in INCLUDE_KINDS and name_of(e2, j) == nm:
                    if e2.get("doc") or cfg["include_undocumented_" + e2["k"]]:
                        allowed += 1
            if names.get(nm, 0) > allowed:
                msgs.append(f"undocumented-shown: undocumented {k} {nm} has an entry although its option is off")
    return msgs


def shim_class():
    """repair shim for known finding K1 (harness side): the doccomment path already pushed the documented class"""
    from cminx.aggregator import DocumentationAggregator

    class Shim(DocumentationAggregator):
        def enterCommand_invocation(self, ctx):
            if (ctx.Identifier().getText().lower() == "cpp_class" and ctx in self.consumed
                    and not self.settings.input.include_undocumented_cpp_class):
                return
            return super().enterCommand_invocation(ctx)

    return Shim


INDENTED = {"doc_indent": "   ", "cmd_indent": "   ", "head": "   "}      # no doccomment starts in column 0


def check_module(job, case):
    events, mode = job[0], job[1]
    cm = Cached(events, case, INDENTED if len(job) > 2 and job[2] == "indented" else None)
    evs = cm.events
    cfgs = all_configs() if mode == "all" else reduced_configs(evs) if mode == "reduced" else single_configs()
    base_index, _ = index_page(cm.page(dict.fromkeys(FLAGS, True)))
    viol, known, digs, k1_example = None, 0, set(), None
    shim = None
    for cfg in cfgs:
        try:
            text = cm.page(cfg)
            msgs = judge(evs, cfg, text, base_index)
            digs.add(common.digest(text))
        except Exception as e:  # noqa
            msgs = [f"error: pipeline failed: {type(e).__name__}: {e}"]
        if msgs:
            off = sorted(f[len("include_undocumented_"):] for f, v in cfg.items() if not v)
            # narrow attribution to K1: the violation must disappear under the repair shim
            is_k1 = False
            if not cfg["include_undocumented_cpp_class"]:
                shim = shim or shim_class()
                try:
                    is_k1 = not judge(evs, cfg, cm.page(cfg, shim), base_index)
                except Exception:
                    is_k1 = False
            if is_k1:
                known += 1
                if k1_example is None:
                    k1_example = [f"{m}   [off: {off}]" for m in msgs]
            elif viol is None:
                viol = ([f"{m}   [off: {off}]" for m in msgs], cfg)
    nt = any(e.get("doc") for e in evs if e["k"] in INCLUDE_KINDS) and \
        any(not e.get("doc") for e in evs if e["k"] in INCLUDE_KINDS)
    r = {"viol": viol[0] if viol else [], "obs": common.digest(sorted(digs)), "n": len(cfgs),
         "nt": common.digest(evs) if nt else None, "cls": viol[0][0].split(":")[0] if viol else None,
         "known": known, "ndig": len(digs), "k1_example": k1_example}
    return r


def attribute(case, msgs):
    return None


def check_inplace(job, case):
    """ONE Settings object (and a deep copy of it) whose options are flipped between documentation runs, against a fresh
    Settings object per configuration: what was documented before must not decide what an option means now"""
    import copy
    from cminx.documenter import Documenter
    events = job
    text = cmakegen.render(cmakegen.items(cmakegen.close(events), case))
    path = pipeline.write_tmp(text)

    def page(settings):
        with common.quiet():
            return Documenter(path, "Title", "mod", settings).process().to_text()
    msgs = []
    shared = modsearch.settings_of(dict.fromkeys(FLAGS, True))
    try:
        page(shared)
        for how in ("in place", "deep copy"):
            for f in FLAGS:
                s = shared if how == "in place" else copy.deepcopy(shared)
                setattr(s.input, f, False)
                got = page(s)
                cfg = dict.fromkeys(FLAGS, True)
                cfg[f] = False
                want = page(modsearch.settings_of(cfg))
                if how == "in place":
                    setattr(s.input, f, True)
                if got != want:
                    msgs.append(f"stale-settings: {f} switched off {how} on a Settings object that was used before: the page differs "
                                f"from the page under a fresh Settings object with the same values")
                    break
    except Exception as e:  # noqa
        msgs.append(f"error: pipeline failed: {type(e).__name__}: {e}")
    return {"viol": msgs[:2], "obs": common.digest([events, msgs]), "nt": common.digest(events), "n": 2 * len(FLAGS), "known": 0, "ndig": 1,
            "k1_example": None, "cls": msgs[0].split(":")[0] if msgs else None, "case": {"inplace": events}}


D_ = "#[[[\n# Doc marker {m}.\n#\n# Second line.\n#]]\n"
RAW_MODULES = {
    # declarations that never get an implementing definition (pure virtual members), before documented members
    "virtual_members": ("cpp_class(Shape)\n  cpp_member(area Shape)\n  cpp_virtual_member(area)\n  cpp_member(perimeter Shape int)\n"
                        "  cpp_virtual_member(perimeter)\n" + D_.format(m="describe-1") +
                        "  cpp_member(describe Shape str)\n  function(\"${describe}\" self prefix)\n  endfunction()\n" + D_.format(m="ctor-2") +
                        "  cpp_constructor(CTOR Shape int)\n  function(\"${CTOR}\" self sides)\n  endfunction()\ncpp_end_class()\n"),
    "test_without_body": ("ct_add_test(NAME declared_only)\n" + D_.format(m="fn-1") + "function(plain_fn a)\nendfunction()\n"
                          "ct_add_test(NAME with_body)\nfunction(${with_body})\n  ct_add_section(NAME sec_declared_only)\n" + D_.format(m="mac-2") +
                          "  macro(helper_mac x)\n  endmacro()\nendfunction()\n"),
    # doc texts that mention other (undocumented) commands of the file the way people write them: name()
    "mentions": ("function(helper_fn a)\nendfunction()\nmacro(helper_mac)\nendmacro()\noption(WITH_HELP \"h\" ON)\n" +
                 "#[[[\n# Doc marker caller-1.\n#\n# Calls helper_fn() and helper_mac(), see also add_test() and WITH_HELP.\n#]]\n"
                 "function(caller x)\n  helper_fn(${x})\nendfunction()\n"),
    # the doccomment sits on the implementing definition, the declaration has none
    "doc_on_definition": ("cpp_class(Box)\n  cpp_member(resize Box int int)\n" + D_.format(m="resize-1") +
                          "  function(\"${resize}\" self width height)\n  endfunction()\ncpp_end_class()\n"
                          "ct_add_test(NAME my_test)\n" + D_.format(m="body-2") + "function(${my_test})\nendfunction()\n"),
}


def check_raw(job, case):
    """modules given as text (shapes the event alphabet cannot spell): every doccomment-carrying entry is rendered the same
    under every single-flag deviation (classes left on: a hidden class hides its members by design) as under the defaults"""
    name = job
    text = RAW_MODULES[name]
    path = pipeline.write_tmp(text, f"raw-{name}.cmake")
    from cminx.documenter import Documenter

    def entries(cfg):
        with common.quiet():
            page = Documenter(path, "Title", "mod", modsearch.settings_of(cfg)).process().to_text()
        return index_page(page)[0]
    msgs = []
    try:
        base = entries(dict.fromkeys(FLAGS, True))
        if not base:
            msgs.append("error: no documented entry found in the default page")
        for cfg in single_configs():
            if not cfg["include_undocumented_cpp_class"]:
                continue
            got = entries(cfg)
            for mk, r in base.items():
                if got.get(mk) != r:
                    off = sorted(f[len("include_undocumented_"):] for f, v in cfg.items() if not v)
                    msgs.append(f"documented-altered: entry with marker {mk} of module '{name}' differs from its default rendering: "
                                f"{[x[0][1] for x in got.get(mk, [])]} vs {[x[0][1] for x in r]}   [off: {off}]")
                    break
            if msgs:
                break
    except Exception as e:  # noqa
        msgs.append(f"error: pipeline failed: {type(e).__name__}: {e}")
    return {"viol": msgs[:2], "obs": common.digest([name, msgs]), "nt": common.digest(name), "n": len(FLAGS) + 1, "known": 0, "ndig": 1,
            "k1_example": None, "cls": msgs[0].split(":")[0] if msgs else None, "case": {"raw": name}}


KW_MODULES = [     # an undocumented definition inside a documented one, before the outer body's cmake_parse_arguments call
    [{"k": "function", "doc": 1, "params": ["p"]}, {"k": "macro", "doc": 0, "params": []}, {"k": "close"}, {"k": "cmake_parse_arguments"}],
    [{"k": "function", "doc": 1, "params": ["p"]}, {"k": "function", "doc": 0, "params": ["q"]}, {"k": "close"}, {"k": "cmake_parse_arguments"}],
    [{"k": "macro", "doc": 1, "params": []}, {"k": "macro", "doc": 0, "params": []}, {"k": "close"}, {"k": "cmake_parse_arguments"}],
    [{"k": "macro", "doc": 1, "params": []}, {"k": "function", "doc": 0, "params": ["q"]}, {"k": "cmake_parse_arguments"}, {"k": "close"},
     {"k": "cmake_parse_arguments"}],
    [{"k": "function", "doc": 1, "params": ["p"]}, {"k": "ct_add_test", "doc": 0}, {"k": "close"}, {"k": "cmake_parse_arguments"}],
]


CLI_MODULE = [
    {"k": "function", "doc": 0, "params": ["p"]}, {"k": "close"}, {"k": "macro", "doc": 0, "params": []}, {"k": "close"},
    {"k": "cpp_class", "doc": 0}, {"k": "cpp_attr", "doc": 0, "default": "v"},
    {"k": "cpp_member", "doc": 0, "types": ["int"], "params": ["a"]}, {"k": "close"},
    {"k": "cpp_constructor", "doc": 0, "types": [], "params": []}, {"k": "close"}, {"k": "close"},
    {"k": "ct_add_test", "doc": 0}, {"k": "ct_add_section", "doc": 0}, {"k": "close"}, {"k": "close"},
    {"k": "add_test", "doc": 0}, {"k": "option", "doc": 0},
    {"k": "function", "doc": 1, "params": ["q"]}, {"k": "close"}, {"k": "cpp_class", "doc": 1},
    {"k": "cpp_constructor", "doc": 1, "types": ["int"], "params": ["x"]},
]


def check_cli(job):
    """the options as a user sets them: a settings file (-s or the per-user configuration) read by the real command line"""
    from .. import fsbox, refmodel
    import yaml
    source, off = job
    cfg = dict.fromkeys(FLAGS, True)
    for f in off:
        cfg[f] = False
    box = fsbox.Box("c08")
    msgs = []
    try:
        box.build({"in/m.cmake": cmakegen.text_of(CLI_MODULE)})
        y = yaml.safe_dump({"input": {f: False for f in off}}) if off else "{}\n"
        with open(box.path("work", "s.yaml"), "w") as fh:
            fh.write(y if source == "sfile" else "{}\n")
        r = box.run(["-s", "s.yaml", "-o", "out", "in"], user_config=y if source == "user" else None)
        if r["status"] != 0:
            msgs.append(f"error: run failed: {r['exc'] or r['stdout'][-200:]}")
        else:
            page = rstobs.Page(box.page("work/out", "m.rst"))
            obs = [rstobs.abstract_entry(b) for b in page.entries()]
            # oracle: the same module documented through the API with a Settings object that carries these values
            # (which entries that must be is the main sweep's business; here: the file reaches the listener unchanged)
            r2 = pipeline.document_text(cmakegen.text_of(CLI_MODULE), pipeline.make_settings(cfg))
            exp = [rstobs.abstract_entry(b) for b in rstobs.Page(r2["page"]).entries()] if r2["page"] else None
            if exp is None:
                msgs.append(f"error: API run failed: {r2['error']}")
            elif [(e["kind"], e["rawsig"]) for e in exp] != [(o["kind"], o["rawsig"]) for o in obs] or exp != obs:
                diff = [o["rawsig"] for o in obs if o not in exp] + ["-" + e["rawsig"] for e in exp if e not in obs]
                msgs.append(f"settings-file: with {', '.join(f[len('include_undocumented_'):] for f in off) or 'nothing'} switched off in "
                            f"the {source} file the command line's page differs from the page under the same Settings object: {diff[:4]}")
    finally:
        box.cleanup()
    return {"viol": msgs[:4], "obs": common.digest([job, msgs]), "nt": common.digest(job), "n": 1, "known": 0, "ndig": 1,
            "k1_example": None, "cls": ("cli " + msgs[0].split(":")[0]) if msgs else None, "case": {"cli": [source, list(off)]}}


def run(ctx):
    quick = ctx.tier == "quick"
    n_all, n_red, n_single, maxnest = (1, 2, 4, 2) if quick else (2, 4, 5, 3)
    case = common.rot(["lower", "upper", "mixed"], ctx.seed + 3)[0]
    en = functools.partial(enabled, maxnest=maxnest)
    hs = modsearch.all_histories(n_single, en)
    # the longest modules are restricted to those that start with a container (class or test) - the commands whose
    # content the options act on; everything shorter is complete
    # quick: modules of 3 events are complete but run under the single-deviation configurations only
    full_len = n_red if not quick else 3
    jobs = [(h, "all" if len(h) <= n_all else "reduced" if len(h) <= n_red else "single") for h in hs
            if len(h) <= full_len or h[0]["k"] in (("cpp_class",) if quick else ("cpp_class", "ct_add_test"))]
    ctx.cov["bounds"] = {"events_full_2^10": n_all, "events_reduced_product": n_red, "events_single_flag_deviations": n_single,
                         "longest_modules_restricted_to": "first event is cpp_class (thorough: or ct_add_test)", "max_nesting": maxnest,
                         "flags": FLAGS, "command_case": case}
    heavy = [j for j in jobs if j[1] == "all"]
    light = [j for j in jobs if j[1] != "all"]
    jobs = heavy + light
    results = ctx.sweep(functools.partial(check_module, case=case), heavy, space="modules x all 2^10 configurations", chunk=1,
                        selftest=2)
    results += ctx.sweep(functools.partial(check_module, case=case), light, space="modules x configurations", chunk=16,
                         selftest=8)
    # the other two spellings of command names: every module of <= 2 events under the single-flag deviations
    short = [(h, "single") for h in hs if len(h) <= 2]
    for oc in [c for c in ("lower", "upper", "mixed") if c != case]:
        jobs += short
        results += ctx.sweep(functools.partial(check_module, case=oc), short, space=f"modules <=2 events, {oc} case", chunk=16,
                             selftest=2)
    # an undocumented class with a fixed name and documented classes derived from it (every option combination)
    base_k = {"k": "cpp_class", "doc": 0, "name": "BaseK", "bases": []}
    der = {"k": "cpp_class", "doc": 1, "name": "DerivedK", "bases": ["BaseK", "Elsewhere"]}
    fam = [([base_k, {"k": "close"}, der], "all"), ([base_k, dict(der)], "all"),
           ([dict(base_k, doc=1), {"k": "close"}, der, {"k": "cpp_attr", "doc": 1, "default": "v"}], "all"),
           ([der, {"k": "close"}, base_k], "all")]
    jobs += fam
    results += ctx.sweep(functools.partial(check_module, case=case), fam, space="derived classes x all 2^10 configurations", chunk=1, selftest=1)
    kw = [(m, "reduced") for m in KW_MODULES]
    jobs += kw
    results += ctx.sweep(functools.partial(check_module, case=case), kw, space="undocumented definitions inside documented ones", chunk=1, selftest=1)
    ctx.sweep(functools.partial(check_raw, case=case), list(RAW_MODULES), space="modules given as text", chunk=1, selftest=1)
    # no doccomment in column 0: short modules again, every line indented, single-flag deviations (incl. all off)
    ind = [(h, "single", "indented") for h in hs if len(h) <= 2]
    jobs += ind
    results += ctx.sweep(functools.partial(check_module, case=case), ind, space="modules <=2 events, indented layout", chunk=16, selftest=2)
    # option flips on a Settings object that was used before
    ij = [h for h in hs if len(h) <= (1 if quick else 2)] + [CLI_MODULE]
    ctx.sweep(functools.partial(check_inplace, case=case), ij, space="options flipped in place / on a deep copy between runs", chunk=4, selftest=1)
    cj = [(src, off) for src in ("sfile", "user") for off in [()] + [(f,) for f in FLAGS] + [tuple(FLAGS)]
          # (switching classes off while a documented class exists is K1's input class: left to the main sweep)
          if "include_undocumented_cpp_class" not in off]
    ctx.sweep(check_cli, cj, space="each option switched off through a settings file on the command line", selftest=1)
    known = sum(r["known"] for r in results)
    ctx.cov["distinct_pages"] = sum(r["ndig"] for r in results)
    if known:
        if "K1" in ctx.open_findings:
            ctx.known_seen["K1"] = known
        else:  # not listed as open: report like any other violation
            for job, r in zip(jobs, results):
                if r["k1_example"]:
                    ctx.violation({"events": job[0], "mode": job[1], "k1": True}, r["k1_example"], cls="K1-shaped")
    ctx.assumptions += ["entries of other undocumented commands (e.g. the orphaned implementing function of a hidden "
                        "member or test) are not judged - the statement is silent about them",
                        "K1 attribution: a violating (module, configuration) pair is attributed to K1 only if it has "
                        "include_undocumented_cpp_class off and passes under the harness-side repair shim"]
    return RULE


def replay(case):
    if isinstance(case, dict) and "raw" in case:
        return check_raw(case["raw"], "lower")["viol"]
    if isinstance(case, dict) and "inplace" in case:
        return common.in_fork(check_inplace, case["inplace"], "lower")["viol"]
    if isinstance(case, list) and len(case) > 2 and case[2] == "indented":
        for cs in ("lower", "upper", "mixed"):
            r = check_module((case[0], case[1], "indented"), cs)
            if r["viol"]:
                return r["viol"]
        return []
    if isinstance(case, dict) and "cli" in case:
        return check_cli((case["cli"][0], tuple(case["cli"][1])))["viol"]
    events = case[0] if isinstance(case, list) else case.get("events", [])
    mode = case[1] if isinstance(case, list) else case.get("mode", "all")
    if not events:
        return []
    for cs in ("lower", "upper", "mixed"):
        r = check_module((events, mode), cs)
        m = r["viol"] or ((r["k1_example"] or []) if isinstance(case, dict) and case.get("k1") else [])
        if m:
            return m
    return []
