"""C17 - output is a function of contents, relative paths and settings only (explicit-state over run histories)."""
import functools
import itertools
import os
import subprocess

from .. import common, fsbox, cmakegen

ID = "C17"
RULE = ("inputs: a lone file whose function uses cmake_parse_arguments and the kwargs trigger (K), a nested directory with "
        "a module doccomment, classes and three levels (D), a second directory (D2), a file of tests and sections (T), an "
        "empty file (E).  Histories: every sequence of <=3/4 inputs documented within ONE process, as one command line "
        "with several inputs and as successive cminx.main calls, under 2 working directories; environment deviations "
        "per input: working directory (sandbox, input's directory, /), absolute location of the tree, spelling of the "
        "input, every permutation of the top directory listing and reversed listings everywhere, 4 hash seeds in "
        "subprocesses.  Oracle (differential): every generated file is byte-equal to the file produced for that input "
        "alone in a fresh process at the reference location.  non-trivial = history of >=2 inputs or a deviation; "
        "distinct by (history, mode, environment)")

K_TEXT = ("#[[[\n# Keyword function.\n#\n# :param a: first\n# :keyword OPT: an option\n#]]\nfunction(kfun a)\n"
          "  cmake_parse_arguments(K \"\" \"OPT\" \"\" ${ARGN})\nendfunction()\n\nmacro(kmac)\n  cmake_parse_arguments(M \"\" \"\" \"\" ${ARGN})\nendmacro()\n")
T_TEXT = ("ct_add_test(NAME t_one)\nfunction(${t_one})\n  #[[[\n  # A section.\n  #]]\n  ct_add_section(NAME s_one EXPECTFAIL)\n"
          "  function(${s_one})\n  endfunction()\nendfunction()\nadd_test(NAME plain COMMAND plain --x)\n"
          # declarations without a NAME keyword (whatever they are rendered as, it must not depend on the run's past)
          "ct_add_test(\"no name given\" EXPECTFAIL)\nfunction(${no_name})\nendfunction()\nadd_test(smoke prog --version)\n"
          "ct_add_test(EXPECTFAIL)\nmacro(${anon})\nendmacro()\n")
A_TEXT = ("#[[[ @module\n# Module text of a.\n#]]\n\n#[[[\n# A class.\n#]]\ncpp_class(Widget Base Drawable Clickable Serializable Zed)\n  #[[[\n  # attr doc\n  #]]\n"
          "  cpp_attr(Widget color red)\n  cpp_attr(Widget sizes 1 2 3)\n  cpp_attr(Widget label \"two words\" more)\n  cpp_member(run Widget int args)\n  function(\"${run}\" self n)\n"
          "    cmake_parse_arguments(R \"\" \"\" \"\" ${ARGN})\n  endfunction()\ncpp_end_class()\noption(WITH_X \"help\" ON)\n")


def layout():
    return {
        "kdir/kfile.cmake": K_TEXT, "tfile.cmake": T_TEXT, "empty.cmake": "",
        "dtree/a.cmake": A_TEXT, "dtree/zz.cmake": fsbox.cmake_content("zz"), "dtree/Zz.cmake": fsbox.cmake_content("Zz-upper"), "dtree/sub/b.cmake": fsbox.cmake_content("b"),
        "dtree/sub/deep/c.cmake": fsbox.cmake_content("c"), "dtree/sub/deep/k2.cmake": K_TEXT,
        # two files in different sub-directories that declare the same module name
        "dtree/sub/compat.cmake": "#[[[ @module shared.name\n# first\n#]]\nset(A 1)\n",
        "dtree/sub2/compat.cmake": "#[[[ @module shared.name\n# second\n#]]\nset(B 2)\n",
        "follow.yaml": "input:\n  follow_symlinks: true\n",
        "dtree/core_impl.cmake": fsbox.cmake_content("core_impl"), "dtree/other_impl.cmake": fsbox.cmake_content("other_impl"),
        # plain_fn has the same declared parameter names as K's kfun but no keyword arguments
        "other/o1.cmake": fsbox.cmake_content("o1") + "\nfunction(plain_fn a)\nendfunction()\nmacro(plain_mac)\nendmacro()\n",
        "other/in/o2.cmake": T_TEXT,
        # two files that differ only in the letter case of the extension (both map to one page: the later one wins)
        "other/twin.cmake": fsbox.cmake_content("twin-lower"), "other/twin.CMake": fsbox.cmake_content("twin-mixed"),
        # a directory with many entries of which one is a CMake file
        **{f"wide/tables/t{n:03d}.csv": "1,2\n" for n in range(300)}, "wide/tables/load_table.cmake": fsbox.cmake_content("load"),
        "wide/top.cmake": fsbox.cmake_content("widetop"),
        # a tree whose path begins with the characters of the output directory's path ('out' / 'out-tree')
        "out-tree/top.cmake": fsbox.cmake_content("top"), "out-tree/modules/greet.cmake": fsbox.cmake_content("greet"),
        "out-tree/modules/deep/x.cmake": fsbox.cmake_content("x"),
        "strip.yaml": "input:\n  function_parameter_name_strip_regex: '^_'\n  macro_parameter_name_strip_regex: '^_'\n"
                      "  member_parameter_name_strip_regex: '^_'\nrst:\n  module_path_separator: '/'\n",
    }


def add_links(base):
    """symbolic links of the layout (relative targets, inside the tree): only walked with follow_symlinks on"""
    for link, target in (("dtree/shortcuts", "sub"), ("wide/alias", "tables")):
        p = os.path.join(base, link)
        if os.path.isdir(os.path.dirname(p)) and not os.path.lexists(p):
            os.symlink(target, p)


INPUTS = {"K": "kdir/kfile.cmake", "D": "dtree", "D2": "other", "T": "tfile.cmake", "E": "empty.cmake",
          "DS": "dtree/sub",       # DS: a sub-directory of D given as an input of its own
          "OT": "out-tree",        # OT: its path starts with the output directory's path
          "W": "wide"}             # W: a sub-directory with 300 non-CMake entries and one module

CLI = ("import sys; sys.path.insert(0, %r); import warnings; warnings.filterwarnings('ignore'); import cminx; "
       "cminx.main(sys.argv[1:])")


def cfg_args(cfg, base):
    if cfg == "excl":       # exclusion patterns that match something in several inputs
        return ["-e", "zz.cmake", "-e", "o1.cmake", "-e", "deep/", "-e", "", "-e", "sub/b.cmake", "-e", "dtree/sub2/compat.cmake"]
    if cfg == "excl2":      # two sibling files and two sibling directories are rejected by one pattern each
        return ["-e", "*z.cmake", "-e", "sub*/"]
    if cfg == "neg":        # a glob and a negation that re-includes one of its matches: the order of the patterns matters
        return ["-e", "*_impl.cmake", "-e", "!core_impl.cmake", "-e", "zz*", "-e", "!zz.cmake", "-e", "Zz.cmake"]
    if cfg == "follow":
        return ["-s", os.path.join(base, "follow.yaml")]
    return ["-s", os.path.join(base, "strip.yaml")] if cfg == "strip" else []


class ReferenceFailed(Exception):
    """the implementation fails on one of the (valid) inputs, alone, in a fresh process: a violation, not a harness matter"""


def reference(seedval="0", cfg="default"):
    """R[x] = {relative output path: text} for each input alone, fresh process each, reference location"""
    box = fsbox.Box("c17ref")
    R = {}
    try:
        box.build(layout())
        add_links(box.path("work"))
        env = dict(os.environ, CMINXDIR=box.path("cfg"), HOME=box.path("home"), XDG_CONFIG_HOME=box.path("home", ".config"), PWD=box.path("stale-pwd"),
                   PYTHONHASHSEED=seedval)
        for x, rel in INPUTS.items():
            out = box.path("work", "ref-" + x)
            p = subprocess.run([common.PYTHON, "-c", CLI % common.REPO_SRC] + cfg_args(cfg, box.path("work")) +
                               ["-r", "-o", out, rel], cwd=box.path("work"),
                               env=env, capture_output=True, text=True)
            if p.returncode != 0:
                raise ReferenceFailed(f"error: the fresh single-input run for input {x} ({rel}, settings {cfg}) fails at the reference "
                                      f"location: {p.stderr[-300:]}")
            R[x] = box.files(os.path.relpath(out, box.root))
    finally:
        box.cleanup()
    return R


def expected_after(history, R):
    exp = {}
    for x in history:
        exp.update(R[x])
    return exp


def compare(got, exp, what):
    if got and exp and all(isinstance(v, dict) for v in got.values()):      # {input: {path: text}}
        out = []
        for x in sorted(got):
            out += compare(got[x], exp.get(x, {}), f"{what}, input {x}")
        return out
    msgs = []
    if set(got) != set(exp):
        msgs.append(f"files: {what}: output holds {sorted(set(got) - set(exp))[:4]} unexpectedly and lacks "
                    f"{sorted(set(exp) - set(got))[:4]}")
    for k in sorted(set(got) & set(exp)):
        if got[k] != exp[k]:
            a, b = got[k].split("\n"), exp[k].split("\n")
            i = next((i for i, (p, q) in enumerate(itertools.zip_longest(a, b)) if p != q), 0)
            msgs.append(f"bytes: {what}: {k} differs from the fresh single-input run at line {i}: "
                        f"{a[i] if i < len(a) else None!r} vs {b[i] if i < len(b) else None!r}")
    return msgs


def _run_history(job, RR):
    history, mode, cwd = job[:3]
    cfg = job[3] if len(job) > 3 else "default"
    R = RR[cfg]
    box = fsbox.Box("c17")
    msgs = []
    try:
        box.build(layout())
        add_links(box.path("work"))
        cwdp = {"work": "work", "kdir": "work/kdir", "root": "/"}[cwd]
        base = box.path("work")
        out = box.path("work", "out")

        def spell(x):
            p = os.path.join(base, INPUTS[x])
            return p if cwd == "root" else os.path.relpath(p, box.path(cwdp))

        ca = cfg_args(cfg, base)
        if mode == "one-call":
            r = box.run(ca + ["-r", "-o", out] + [spell(x) for x in history], cwd=cwdp)
            if r["status"] != 0:
                msgs.append(f"error: run failed: {r['exc'] or r['stdout'][-200:]}")
        else:
            for x in history:
                r = box.run(ca + ["-r", "-o", out, spell(x)], cwd=cwdp)
                if r["status"] != 0:
                    msgs.append(f"error: run failed: {r['exc'] or r['stdout'][-200:]}")
        if not msgs:
            msgs += compare(box.files("work/out"), expected_after(history, R),
                            f"history {history} ({mode}, cwd {cwd}, settings {cfg})")
    finally:
        box.cleanup()
    msgs = [m.replace(box.root, "<box>") for m in msgs]
    return {"viol": msgs[:4], "obs": common.digest([history, mode, cwd, not msgs]), "n": len(history) if mode != "one-call" else 1,
            "nt": common.digest(job) if len(history) >= 2 else None, "cls": msgs[0].split(":")[0] if msgs else None}


def _run_env(job, RR):
    """one input under one or two environment deviations"""
    x, devs = job
    cfgname = dict(devs).get("settings", "default")
    R = RR[cfgname]
    devs = dict(devs)
    box = fsbox.Box("c17e")
    msgs = []
    try:
        prefix = devs.get("location", "work")
        via_link = prefix == "SYMLINK"
        if via_link:      # the tree lives in 'real place/work' and is reached through the link 'via-link' -> 'real place'
            prefix = "real place/work"
        spec = {os.path.join(prefix, k) if prefix != "work" else k: v for k, v in layout().items()}
        box.build(spec, base="work" if prefix == "work" else "")
        base = box.path(prefix) if prefix != "work" else box.path("work")
        if via_link:
            os.symlink("real place", box.path("via-link"))
            base = box.path("via-link", "work")
        add_links(box.path(prefix) if prefix != "work" else box.path("work"))
        target = os.path.join(base, INPUTS[x])
        isdir = os.path.isdir(target)
        cwd = {"work": base, "inside": target if isdir else os.path.dirname(target), "root": "/"}[devs.get("cwd", "work")]
        sp = devs.get("spelling", "rel")
        if sp == "abs" or cwd == "/" or via_link:      # (through the link: given by its absolute path, the cwd would resolve it)
            arg = target
        elif sp == "dot" and isdir:
            cwd, arg = target, "."
        else:
            arg = os.path.relpath(target, cwd)
            if sp == "dotslash":
                arg = "./" + arg
            elif sp == "slash" and isdir:
                arg = arg + "/"
            elif sp == "updown":
                arg = os.path.join("..", os.path.basename(cwd.rstrip("/")), arg)
        sched = None
        if "listing" in devs:
            l = devs["listing"]
            root = target if isdir else os.path.dirname(target)
            sched = fsbox.Schedule(mode="reversed", root=root) if l == "reversed" else \
                fsbox.Schedule(table={".": list(l)}, root=root)
        out = os.path.join(base, "out")
        r = box.run(cfg_args(cfgname, base) + ["-r", "-o", out, arg], cwd=cwd, schedule=sched)
        if r["status"] != 0:
            msgs.append(f"error: run failed: {r['exc'] or r['stdout'][-200:]}")
        else:
            msgs += compare(box.files(os.path.relpath(out, box.root)), R[x], f"input {x} under {devs}")
    finally:
        box.cleanup()
    msgs = [m.replace(box.root, "<box>") for m in msgs]
    return {"viol": msgs[:4], "obs": common.digest([x, sorted(devs.items(), key=str), not msgs]), "n": 1,
            "nt": common.digest([x, str(sorted(devs.items(), key=str))]), "cls": msgs[0].split(":")[0] if msgs else None}


def run_seed(seedval, RR):
    """all inputs in one subprocess under a given hash seed"""
    R = RR["default"]
    box = fsbox.Box("c17s")
    msgs = []
    try:
        box.build(layout())
        env = dict(os.environ, CMINXDIR=box.path("cfg"), HOME=box.path("home"), XDG_CONFIG_HOME=box.path("home", ".config"), PWD=box.path("stale-pwd"),
                   PYTHONHASHSEED=str(seedval))
        hist = ["K", "D", "T", "E", "D2", "K"]
        p = subprocess.run([common.PYTHON, "-c", CLI % common.REPO_SRC, "-r", "-o", "out"] + [INPUTS[x] for x in hist],
                           cwd=box.path("work"), env=env, capture_output=True, text=True)
        if p.returncode != 0:
            msgs.append(f"error: subprocess failed under PYTHONHASHSEED={seedval}: {p.stderr[-200:]}")
        else:
            msgs += compare(box.files("work/out"), expected_after(hist, R), f"hash seed {seedval}")
    finally:
        box.cleanup()
    msgs = [m.replace(box.root, "<box>") for m in msgs]
    return {"viol": msgs[:4], "obs": common.digest([seedval, not msgs]), "n": 1, "nt": f"seed{seedval}",
            "cls": msgs[0].split(":")[0] if msgs else None}


def run_history(job, RR):
    return common.in_fork(_run_history, job, RR)


def run_env(job, RR):
    return common.in_fork(_run_env, job, RR)


def run_rewrite(job, RR):
    return common.in_fork(_run_rewrite, job, RR)


def _run_rewrite(job, RR):
    """document, replace the file's content WITHOUT making it newer than the generated page, document again into the
    same output directory: the page must be the page of the new content"""
    which = job
    box = fsbox.Box("c17w")
    msgs = []
    try:
        lay = layout()
        box.build(lay)
        rel = {"K": "kdir/kfile.cmake", "T": "tfile.cmake"}[which]
        other = {"K": T_TEXT, "T": K_TEXT}[which]
        src = box.path("work", rel)
        out = box.path("work", "out")
        r1 = box.run(["-o", out, rel])
        st = os.stat(src)
        with open(src, "w") as f:
            f.write(other)
        os.utime(src, ns=(st.st_atime_ns, st.st_mtime_ns))      # same timestamps as the first revision
        r2 = box.run(["-o", out, rel])
        if r1["status"] or r2["status"]:
            msgs.append(f"error: run failed: {r1['exc'] or r2['exc']}")
        else:
            got = box.files("work/out")
            # reference: the new content documented in a fresh output directory
            r3 = box.run(["-o", box.path("work", "out-fresh"), rel])
            msgs += compare(got, box.files("work/out-fresh"), f"second run after rewriting {rel} with an unchanged mtime")
    finally:
        box.cleanup()
    msgs = [m.replace(box.root, "<box>") for m in msgs]
    return {"viol": msgs[:4], "obs": common.digest([which, not msgs]), "n": 3, "nt": "rewrite-" + which,
            "cls": msgs[0].split(":")[0] if msgs else None, "case": {"rewrite": which}}


def deviations(x):
    devs = [("cwd", "inside"), ("cwd", "root"), ("location", "moved/else where/deeper/work"),
            # directory names above the tree that tools like to skip
            ("location", ".hidden ws/build/_deps/CMakeFiles/.git/node_modules/tmp/docs/work"),
            # characters that are special to glob/fnmatch/regular expressions in the names above the tree
            ("location", "archive [2024]/a*b?/{x,y}/(z)+/work"),
            # a symbolic link among the directories above the tree
            ("location", "SYMLINK"),
            # a very deep location (24 levels above the tree)
            ("location", "/".join(f"l{n}" for n in range(24)) + "/work"),
            ("spelling", "abs"), ("spelling", "dotslash"), ("spelling", "updown"), ("listing", "reversed")]
    if x in ("D", "D2"):
        devs += [("spelling", "slash"), ("spelling", "dot")]
        top = ["Zz.cmake", "a.cmake", "sub", "sub2", "zz.cmake"] if x == "D" else ["in", "o1.cmake"]
        devs += [("listing", tuple(p)) for p in itertools.permutations(top)]
    return devs


def run(ctx):
    quick = ctx.tier == "quick"
    try:
        for cfgname in ("default", "strip", "excl", "follow", "excl2"):
            reference("0", cfgname)
    except ReferenceFailed as e:
        ctx.violation({"kind": "reference-run"}, [str(e).replace("\n", " ")[:600]], cls="error reference run")
        ctx.cov["bounds"] = {"inputs": INPUTS}
        return RULE
    R = reference()
    R2 = reference("4242")
    if R != R2:
        ctx.violation({"kind": "reference"}, compare(R2, R, "reference under hash seed 4242"), cls="bytes hash-seed")
    R = {"default": R, "strip": reference("0", "strip"), "excl": reference("0", "excl"), "follow": reference("0", "follow"),
         "excl2": reference("0", "excl2")}
    names = [x for x in INPUTS if x not in ("DS", "OT", "W")]
    n = 3 if quick else 4
    hjobs = []
    for k in range(1, n + 1):
        for h in itertools.product(names, repeat=k):
            for mode in ("one-call", "successive"):
                if k == 1 and mode == "successive":
                    continue
                for cwd in (("work", "root") if k <= 3 else ("work",)):
                    hjobs.append((list(h), mode, cwd))
                if k <= 3:      # the same history under non-default settings (strip patterns, separator)
                    hjobs.append((list(h), mode, "work", "strip"))
                if 2 <= k <= 3 and mode == "one-call":
                    hjobs.append((list(h), mode, "work", "excl"))
                if k == 2:
                    hjobs.append((list(h), mode, "work", "follow"))
    for mode in ("one-call", "successive"):
        for cfg in ("default", "follow", "strip"):
            for h in (["DS", "D"], ["D", "DS"], ["DS", "D", "DS"], ["DS", "K", "D"]):
                hjobs.append((h, mode, "work", cfg))
    ctx.sweep(functools.partial(run_history, RR=R), hjobs, space="run histories within one process", selftest=3, isolate=False)
    ejobs = []
    for x in names:
        ds = deviations(x)
        ejobs += [(x, (d,)) for d in ds]
        ejobs += [(x, (d, ("settings", "excl"))) for d in ds if d[0] in ("cwd", "location")]
        if not quick:
            for d1, d2 in itertools.combinations(ds, 2):
                if d1[0] != d2[0]:
                    ejobs.append((x, (d1, d2)))
    # the wide directory under both listing orders; symbolic links inside the tree followed, from three working directories
    ejobs += [("W", ()), ("W", (("listing", "reversed"),)), ("W", (("listing", "reversed"), ("settings", "follow")))]
    ejobs += [(x, (d, ("settings", "follow"))) for x in ("D", "W") for d in (("cwd", "inside"), ("cwd", "root"), ("spelling", "abs"),
                                                                         ("location", "moved/else where/deeper/work"))]
    ejobs += [("OT", ()), ("OT", (("cwd", "inside"),)), ("OT", (("spelling", "abs"),)), ("OT", (("settings", "excl"),))]
    # every listing order of D's top directory while two sibling files and two sibling directories are excluded
    ejobs += [("D", (d, ("settings", "excl2"))) for d in deviations("D") if d[0] == "listing"]
    ctx.sweep(functools.partial(run_env, RR=R), ejobs, space="environment deviations", selftest=3, isolate=False)
    ctx.sweep(functools.partial(run_rewrite, RR=R), ["K", "T"], space="rewrite with an unchanged modification time",
              selftest=0, chunk=1, isolate=False)
    # exclusion patterns whose order matters, under several hash seeds (fresh processes)
    try:
        rn = reference("0", "neg")
        for sd in ("1", "2", "7", "4242"):
            m = compare(reference(sd, "neg"), rn, f"patterns with a negation under hash seed {sd}")
            if m:
                ctx.violation({"kind": "neg-seeds", "seed": sd}, m, cls="bytes hash-seed patterns")
                break
        ctx.cov["evaluations"] += 5 * len(INPUTS)
    except ReferenceFailed as e:
        ctx.violation({"kind": "reference-run"}, [str(e).replace("\n", " ")[:600]], cls="error reference run")
    seeds = [0, 1, 4242, ctx.seed % (2 ** 32)]
    ctx.sweep(functools.partial(run_seed, RR=R), seeds, space="hash seeds (subprocess)", selftest=0, chunk=1, isolate=False)
    ctx.cov["states"] = len({tuple(sorted(j[0])) for j in hjobs})     # multisets of inputs already documented
    ctx.cov["bounds"] = {"inputs": INPUTS, "max_history": n, "hash_seeds": seeds, "env_jobs": len(ejobs)}
    ctx.assumptions += ["when two inputs of one run generate the same output path the later one wins (inherent to one "
                        "shared output directory); the expectation follows that rule",
                        "every case runs in a child forked from a process that has imported CMinx but never documented anything, so "
                        "the process history is exactly the case's history"]
    return RULE


def replay(case):
    try:
        return _replay(case)
    except ReferenceFailed as e:
        return [str(e).replace("\n", " ")[:600]]


def _replay(case):
    if isinstance(case, dict) and case.get("kind") == "neg-seeds":
        return compare(reference(case["seed"], "neg"), reference("0", "neg"), f"patterns with a negation under hash seed {case['seed']}")
    if isinstance(case, dict) and case.get("kind") == "reference-run":
        for cfgname in ("default", "strip", "excl", "follow", "excl2"):
            reference("0", cfgname)
        return []
    R = {"default": reference(), "strip": reference("0", "strip"), "excl": reference("0", "excl"),
         "follow": reference("0", "follow"), "excl2": reference("0", "excl2")}
    if isinstance(case, dict) and "rewrite" in case:
        return run_rewrite(case["rewrite"], R)["viol"]
    if isinstance(case, dict):
        return compare(reference("4242"), R["default"], "reference under hash seed 4242") if case.get("kind") == "reference" else []
    if isinstance(case, int):
        return run_seed(case, R)["viol"]
    if len(case) in (3, 4) and isinstance(case[0], list):
        return run_history(tuple(case), R)["viol"]
    if len(case) == 2:
        return run_env((case[0], tuple((a, tuple(b) if isinstance(b, list) else b) for a, b in case[1])), R)["viol"]
    return run_seed(case, R)["viol"]
