"""C19 - cminx_gen_rst() in CMake is equivalent to the command line (bounded-exhaustive, subprocess)."""
import itertools
import os
import stat
import subprocess

from .. import common, fsbox

ID = "C19"
RULE = ("inputs {lone file, flat directory, nested directory, missing path, file with a syntax error, directory "
        "containing one} x extra-argument lists {none, -p P, -p 'two words', -e sub/, -s cfg.yaml, and every ordered pair "
        "of those (thorough; quick: a rotating third of the pairs)}.  `cmake -P driver.cmake` includes the working "
        "tree's cmake/cminx.cmake with CMINX_EXECUTABLE bound to a wrapper that logs its argv and runs the working-tree "
        "cminx.main; plus call sequences (two calls on one output directory with an in-place edit of a nested input "
        "file, a changed extra argument or an introduced syntax error in between, on both sides).  Oracle: logged argv = input, -r iff directory, the extra arguments verbatim and in order, -o "
        "output; output tree byte-equal to a direct CLI run with those arguments; cmake fails (and the command after "
        "the call is not reached) iff the direct run fails.  non-trivial = every case; distinct by (input, extras)")

EXTRAS = {"none": [], "p": ["-p", "P"], "p2": ["-p", "two words"], "e": ["-e", "sub/"], "s": ["-s", "{cfg}"],
          "e2": ["-e", "other/"], "p3": ["-p", "sub/"],
          "p4": ["-p", "cmake-reference"], "e3": ["-e", "*-removed*"],
          # relative values with an inner slash (they mean what the command line makes of them, nothing else)
          "e4": ["-e", "nested/sub/b.cmake"], "e5": ["--exclude", "sub/deep"]}     # values that contain the characters of a flag     # e+e2 repeat a flag, p3+e repeat a value
INPUTS = ["file", "flat", "nested", "missing", "badfile", "baddir", "badtop", "linkdir", "linkfile", "subonly", "txtfile", "upperfile", "badtxt"]

CLI = ("import sys; sys.path.insert(0, %r); import warnings; warnings.filterwarnings('ignore'); import cminx; "
       "cminx.main(sys.argv[1:])")


def build(box):
    good = fsbox.cmake_content
    box.build({"flat/a.cmake": good("a"), "flat/b.cmake": good("b"),
               "nested/a.cmake": good("a"), "nested/sub/b.cmake": good("sub/b"), "nested/sub/deep/c.cmake": good("c"),
               "nested/other/d.cmake": good("d"),
               "lone/file.cmake": good("file"),
               "badfile/bad.cmake": "set(A 1)\nstray text here\nset(B \"unterminated)\n",
               "badtop/broken.cmake": "function(f\n", "badtop/sub/good.cmake": good("good"), "badtop/zz/last.cmake": good("last"),
               "baddir/a.cmake": good("a"), "baddir/sub/bad.cmake": "function(f\n", "baddir/z.cmake": good("z"),
               # modules only in sub-directories; single files whose names do not end in lower-case '.cmake'
               "subonly/core/a.cmake": good("a"), "subonly/io/b.cmake": good("b"), "subonly/README.txt": "no cmake here\n",
               "proj/CMakeLists.txt": good("lists"), "proj/FindThing.CMAKE": good("thing"),
               "projbad/CMakeLists.txt": "set(A 1)\nfunction(broken\n",
               "cfg.yaml": "rst:\n  module_path_separator: '/'\n  file_extensions_in_titles: true\n"})
    # inputs reached through symbolic links (a directory under another name, a file under another base name)
    os.symlink("nested", box.path("work", "current"))
    os.makedirs(box.path("work", "links"), exist_ok=True)
    os.symlink(os.path.join("..", "lone", "file.cmake"), box.path("work", "links", "AcmeTools.cmake"))
    return {"file": "lone/file.cmake", "flat": "flat", "nested": "nested", "missing": "does/not/exist",
            "badfile": "badfile/bad.cmake", "baddir": "baddir", "badtop": "badtop", "linkdir": "current", "linkfile": "links/AcmeTools.cmake",
            "subonly": "subonly", "txtfile": "proj/CMakeLists.txt", "upperfile": "proj/FindThing.CMAKE", "badtxt": "projbad/CMakeLists.txt"}


def run_case(job):
    inp, extras = job[0], job[1]
    variant = job[2] if len(job) > 2 else "plain"
    box = fsbox.Box("c19")
    msgs = []
    try:
        paths = build(box)
        work = box.path("work")
        target = os.path.join(work, paths[inp])
        extra = []
        for e in extras:
            extra += [a.format(cfg=os.path.join(work, "cfg.yaml")) for a in EXTRAS[e]]
        log = box.path("argv.log")
        wrapper = box.path("cminx-wrapper.sh")
        with open(wrapper, "w") as f:
            f.write("#!/bin/sh\nfor a in \"$@\"; do printf '%s\\n' \"$a\"; done > '" + log + "'\n"
                    f"exec {common.PYTHON} -c \"{CLI % common.REPO_SRC}\" \"$@\"\n")
        os.chmod(wrapper, os.stat(wrapper).st_mode | stat.S_IEXEC)
        out_cm = os.path.join(work, "out-cmake")
        out_cli = os.path.join(work, "out-cli")
        if variant == "relative":
            # relative input, output and -s paths: both sides run from the same working directory
            target = paths[inp]
            out_cm, out_cli = "out-cmake", "out-cli"
            extra = [a if not os.path.isabs(a) else os.path.relpath(a, work) for a in extra]
        cwd = work
        driver = box.path("driver.cmake")
        if variant == "relative-from-elsewhere":
            # relative input and output, the script lives next to the inputs but cmake runs in another directory: the
            # paths mean what they mean to the command line started there (normally: the input does not exist)
            target = paths[inp]
            out_cm, out_cli = "out-cmake", "out-cli"
            cwd = box.path("elsewhere")
            os.makedirs(cwd, exist_ok=True)
            driver = os.path.join(work, "driver.cmake")
            extra = [a if not os.path.isabs(a) else os.path.relpath(a, cwd) for a in extra]
        quoted = " ".join('"' + a.replace('"', '\\"') + '"' for a in extra)
        call = f'cminx_gen_rst("{target}" "{out_cm}" {quoted})'
        if variant == "in-function":
            # called from inside a user function that itself received more arguments than the call passes on
            call = f'function(make_docs a b c d e f g)\n  {call}\nendfunction()\nmake_docs(1 2 3 4 5 6 7)'
        with open(driver, "w") as f:
            f.write(f'set(CMINX_EXECUTABLE "{wrapper}")\n'
                    f'include("{os.path.join(common.REPO_ROOT, "cmake", "cminx.cmake")}")\n'
                    f'{call}\n'
                    f'message(STATUS "REACHED-AFTER-CALL")\n')
        env = dict(os.environ, CMINXDIR=box.path("cfg"), HOME=box.path("home"), XDG_CONFIG_HOME=box.path("home", ".config"),
                   PWD=box.path("stale-pwd"))
        pc = subprocess.run(["cmake", "-P", driver], cwd=cwd, env=env, capture_output=True, text=True)
        isdir = os.path.isdir(os.path.join(cwd, target))
        want = [target] + (["-r"] if isdir else []) + extra + ["-o", out_cm]
        logged = open(log).read().split("\n")[:-1] if os.path.exists(log) else None
        if logged is None:
            msgs.append(f"argv: the executable was never invoked (cmake said: {pc.stderr[-200:]})")
        else:
            # input and output may be passed in an equivalent spelling (e.g. made absolute); the extras are verbatim
            def canon(lst):
                out_ = []
                for n_, a_ in enumerate(lst):
                    if a_ in (target, out_cm) or (n_ and lst[n_ - 1] == "-o") or \
                            os.path.abspath(os.path.join(cwd, a_)) in (os.path.abspath(os.path.join(cwd, target)),
                                                                       os.path.abspath(os.path.join(cwd, out_cm))):
                        a_ = os.path.abspath(os.path.join(cwd, a_))
                    out_.append(a_)
                return out_
            if sorted(canon(logged)) != sorted(canon(want)):
                msgs.append(f"argv: cminx was invoked with {logged}, expected (in any order) {want}")
            else:
                it = iter(logged)
                if not all(any(a == b for b in it) for a in extra):
                    msgs.append(f"argv-order: the extra arguments {extra} are not passed in order: {logged}")
                if "-o" in logged and canon(logged)[logged.index("-o") + 1:logged.index("-o") + 2] != canon(["-o", out_cm])[1:]:
                    msgs.append(f"argv: -o is not followed by the output directory: {logged}")
        direct = [target] + (["-r"] if isdir else []) + extra + ["-o", out_cli]
        pd = subprocess.run([common.PYTHON, "-c", CLI % common.REPO_SRC] + direct, cwd=cwd, env=env,
                            capture_output=True, text=True)
        fail_direct = pd.returncode != 0
        fail_cmake = pc.returncode != 0
        reached = "REACHED-AFTER-CALL" in pc.stdout
        if fail_direct != fail_cmake:
            msgs.append(f"status: direct run {'fails' if fail_direct else 'succeeds'} (rc {pd.returncode}) but the cmake "
                        f"call {'fails' if fail_cmake else 'succeeds'} (rc {pc.returncode})")
        if fail_direct and reached:
            msgs.append("status: CMinx failed but the CMake script continued after cminx_gen_rst()")
        if not fail_direct and not reached and not fail_cmake:
            msgs.append("status: the command after cminx_gen_rst() was not reached although nothing failed")
        rc = os.path.relpath(cwd, box.root)
        t_cm = box.files(rc + "/out-cmake") if os.path.isdir(os.path.join(cwd, "out-cmake")) else {}
        t_cli = box.files(rc + "/out-cli") if os.path.isdir(os.path.join(cwd, "out-cli")) else {}
        if logged is None and fail_direct and variant == "relative-from-elsewhere":
            msgs = [m for m in msgs if not m.startswith("argv:")]     # a call that fails before running anything is a failure, too
        if os.path.isdir(os.path.join(cwd, "out-cmake")) != os.path.isdir(os.path.join(cwd, "out-cli")):
            # "exactly the output tree": an output directory that only one side creates (even an empty one) is a difference
            msgs.append(f"tree: the output directory exists after cminx_gen_rst: {os.path.isdir(os.path.join(cwd, 'out-cmake'))}, "
                        f"after the direct run: {os.path.isdir(os.path.join(cwd, 'out-cli'))} (variant {variant})")
        if t_cm != t_cli:
            diffk = sorted(k for k in set(t_cm) | set(t_cli) if t_cm.get(k) != t_cli.get(k))
            msgs.append(f"tree: output of cminx_gen_rst differs from the direct run in {diffk[:5]} (variant {variant})")
        obs = [sorted(t_cli), fail_direct]
    finally:
        box.cleanup()
    msgs = [m.replace(box.root, "<box>") for m in msgs]
    return {"viol": msgs[:4], "obs": common.digest([job, obs]), "n": 2, "nt": common.digest(job),
            "cls": msgs[0].split(":")[0] if msgs else None}


def run_sequence(job):
    """two calls on the same output directory with an edit in between, on both sides (cmake function / direct CLI)"""
    inp, ex1, ex2, edit = job
    box = fsbox.Box("c19s")
    msgs = []
    try:
        paths = build(box)
        work = box.path("work")
        target = os.path.join(work, paths[inp])
        wrapper = box.path("cminx-wrapper.sh")
        with open(wrapper, "w") as f:
            f.write(f"#!/bin/sh\nexec {common.PYTHON} -c \"{CLI % common.REPO_SRC}\" \"$@\"\n")
        os.chmod(wrapper, os.stat(wrapper).st_mode | stat.S_IEXEC)
        env = dict(os.environ, CMINXDIR=box.path("cfg"), HOME=box.path("home"), XDG_CONFIG_HOME=box.path("home", ".config"),
                   PWD=box.path("stale-pwd"))
        out_cm, out_cli = os.path.join(work, "out-cmake"), os.path.join(work, "out-cli")
        isdir = os.path.isdir(target)
        victim = os.path.join(target, "sub", "deep", "c.cmake") if inp == "nested" else \
            os.path.join(target, "a.cmake") if isdir else target
        rcs = []
        for step, ex in enumerate((ex1, ex2)):
            extra = []
            for e in ex:
                extra += [a.format(cfg=os.path.join(work, "cfg.yaml")) for a in EXTRAS[e]]
            if step == 1:
                if edit == "content":
                    with open(victim, "a") as f:
                        f.write("\n#[[[\n# Added later.\n#]]\nfunction(added_later)\nendfunction()\n")
                elif edit == "break":
                    with open(victim, "a") as f:
                        f.write("\nfunction(broken\n")
            quoted = " ".join('"' + a + '"' for a in extra)
            with open(box.path("driver.cmake"), "w") as f:
                f.write(f'set(CMINX_EXECUTABLE "{wrapper}")\ninclude("{os.path.join(common.REPO_ROOT, "cmake", "cminx.cmake")}")\n'
                        f'cminx_gen_rst("{target}" "{out_cm}" {quoted})\nmessage(STATUS "REACHED-AFTER-CALL")\n')
            pc = subprocess.run(["cmake", "-P", box.path("driver.cmake")], cwd=work, env=env, capture_output=True, text=True)
            pd = subprocess.run([common.PYTHON, "-c", CLI % common.REPO_SRC, target] + (["-r"] if isdir else []) + extra +
                                ["-o", out_cli], cwd=work, env=env, capture_output=True, text=True)
            rcs.append((pc.returncode != 0, pd.returncode != 0))
            if (pc.returncode != 0) != (pd.returncode != 0):
                msgs.append(f"status: step {step + 1}: direct run {'fails' if pd.returncode else 'succeeds'} but the cmake "
                            f"call {'fails' if pc.returncode else 'succeeds'} (second call on an existing output directory)")
            t_cm = box.files("work/out-cmake") if os.path.isdir(out_cm) else {}
            t_cli = box.files("work/out-cli") if os.path.isdir(out_cli) else {}
            if t_cm != t_cli:
                diffk = sorted(k for k in set(t_cm) | set(t_cli) if t_cm.get(k) != t_cli.get(k))
                msgs.append(f"tree: after step {step + 1} the output of cminx_gen_rst differs from the direct runs in {diffk[:4]}")
    finally:
        box.cleanup()
    msgs = [m.replace(box.root, "<box>") for m in msgs]
    return {"viol": msgs[:4], "obs": common.digest([job, rcs]), "n": 4, "nt": common.digest(job),
            "cls": msgs[0].split(":")[0] if msgs else None}


def run_two_calls(job):
    """two cminx_gen_rst() calls in ONE CMake run (one output directory), against the same two command lines"""
    kind = job
    box = fsbox.Box("c19t")
    msgs = []
    try:
        good = fsbox.cmake_content
        box.build({"m/string-utils.cmake": good("dash"), "m/string_utils.cmake": good("underscore"), "m/api.cmake": good("api-one"),
                   "d-1/x.cmake": good("x1"), "d_1/x.cmake": good("x2")})
        work = box.path("work")
        wrapper = box.path("cminx-wrapper.sh")
        with open(wrapper, "w") as f:
            f.write(f"#!/bin/sh\nexec {common.PYTHON} -c \"{CLI % common.REPO_SRC}\" \"$@\"\n")
        os.chmod(wrapper, os.stat(wrapper).st_mode | stat.S_IEXEC)
        env = dict(os.environ, CMINXDIR=box.path("cfg"), HOME=box.path("home"), XDG_CONFIG_HOME=box.path("home", ".config"),
                   PWD=box.path("stale-pwd"))
        out_cm, out_cli = os.path.join(work, "out-cmake"), os.path.join(work, "out-cli")
        two = 'set(A 1)\n#[[[\n# Rewritten.\n#]]\nfunction(second_revision)\nendfunction()\n'
        if kind == "punctuation-files":
            calls = [(os.path.join(work, "m", "string-utils.cmake"), None), (os.path.join(work, "m", "string_utils.cmake"), None)]
        elif kind == "punctuation-dirs":
            calls = [(os.path.join(work, "d-1"), None), (os.path.join(work, "d_1"), None)]
        elif kind == "rewrite":
            calls = [(os.path.join(work, "m", "api.cmake"), None), (os.path.join(work, "m", "api.cmake"), two)]
        else:       # the second revision is faulty: the second call must fail
            calls = [(os.path.join(work, "m", "api.cmake"), None), (os.path.join(work, "m", "api.cmake"), "function(broken\n")]
        script = f'set(CMINX_EXECUTABLE "{wrapper}")\ninclude("{os.path.join(common.REPO_ROOT, "cmake", "cminx.cmake")}")\n'
        for target, rewrite in calls:
            if rewrite is not None:
                script += f'file(WRITE "{target}" [==[{rewrite}]==])\n'
            script += f'cminx_gen_rst("{target}" "{out_cm}")\n'
        script += 'message(STATUS "REACHED-AFTER-CALLS")\n'
        with open(box.path("driver.cmake"), "w") as f:
            f.write(script)
        orig = open(calls[1][0]).read() if calls[1][1] is not None else None
        pc = subprocess.run(["cmake", "-P", box.path("driver.cmake")], cwd=work, env=env, capture_output=True, text=True)
        if orig is not None:
            with open(calls[1][0], "w") as f:
                f.write(orig)
        rcs = []
        for target, rewrite in calls:
            if rewrite is not None:
                with open(target, "w") as f:
                    f.write(rewrite)
            isdir = os.path.isdir(target)
            pd = subprocess.run([common.PYTHON, "-c", CLI % common.REPO_SRC, target] + (["-r"] if isdir else []) + ["-o", out_cli],
                                cwd=work, env=env, capture_output=True, text=True)
            rcs.append(pd.returncode)
            if pd.returncode:
                break
        fail_direct = any(rcs)
        if fail_direct != (pc.returncode != 0):
            msgs.append(f"status: the two command lines {'fail' if fail_direct else 'succeed'} but the CMake run with the two calls "
                        f"{'fails' if pc.returncode else 'succeeds'} ({kind})")
        if fail_direct and "REACHED-AFTER-CALLS" in pc.stdout:
            msgs.append("status: CMinx failed in the second call but the script continued")
        t_cm = box.files("work/out-cmake") if os.path.isdir(out_cm) else {}
        t_cli = box.files("work/out-cli") if os.path.isdir(out_cli) else {}
        if os.path.isdir(out_cm) != os.path.isdir(out_cli):
            msgs.append(f"tree: the output directory exists after the two cminx_gen_rst calls: {os.path.isdir(out_cm)}, "
                        f"after the two command lines: {os.path.isdir(out_cli)}")
        if t_cm != t_cli:
            diffk = sorted(k for k in set(t_cm) | set(t_cli) if t_cm.get(k) != t_cli.get(k))
            msgs.append(f"tree: after two calls in one CMake run ({kind}) the output differs from the two command lines in {diffk[:4]}")
    finally:
        box.cleanup()
    msgs = [m.replace(box.root, "<box>") for m in msgs]
    return {"viol": msgs[:4], "obs": common.digest([job, msgs]), "n": 3, "nt": common.digest(job), "cls": msgs[0].split(":")[0] + " two-calls" if msgs else None,
            "case": {"two_calls": kind}}


def run_project(job):
    """cminx_gen_rst() called during a real configure run (cmake -S/-B, project() with no languages), from the top-level
    project, from a plain sub-directory and from a sub-directory that declares a project of its own"""
    inp, where = job
    box = fsbox.Box("c19p")
    msgs = []
    try:
        paths = build(box)
        work = box.path("work")
        target = os.path.join(work, paths[inp])
        wrapper = box.path("cminx-wrapper.sh")
        with open(wrapper, "w") as f:
            f.write(f"#!/bin/sh\nexec {common.PYTHON} -c \"{CLI % common.REPO_SRC}\" \"$@\"\n")
        os.chmod(wrapper, os.stat(wrapper).st_mode | stat.S_IEXEC)
        env = dict(os.environ, CMINXDIR=box.path("cfg"), HOME=box.path("home"), XDG_CONFIG_HOME=box.path("home", ".config"),
                   PWD=box.path("stale-pwd"))
        out_cm, out_cli = os.path.join(work, "out-cmake"), os.path.join(work, "out-cli")
        call = (f'set(CMINX_EXECUTABLE "{wrapper}")\ninclude("{os.path.join(common.REPO_ROOT, "cmake", "cminx.cmake")}")\n'
                f'cminx_gen_rst("{target}" "{out_cm}")\nfile(WRITE "{box.path("reached.txt")}" "after the call")\n')
        top = "cmake_minimum_required(VERSION 3.21)\nproject(top_project NONE)\n"
        if where == "top":
            box.build({"src/CMakeLists.txt": top + call}, base="")
        elif where == "subdirectory":
            box.build({"src/CMakeLists.txt": top + "add_subdirectory(docs)\n", "src/docs/CMakeLists.txt": call}, base="")
        else:
            box.build({"src/CMakeLists.txt": top + "add_subdirectory(vendored)\n",
                       "src/vendored/CMakeLists.txt": "cmake_minimum_required(VERSION 3.21)\nproject(vendored_project NONE)\n" + call}, base="")
        pc = subprocess.run(["cmake", "-S", box.path("src"), "-B", box.path("bld")], cwd=work, env=env, capture_output=True, text=True)
        isdir = os.path.isdir(target)
        pd = subprocess.run([common.PYTHON, "-c", CLI % common.REPO_SRC, target] + (["-r"] if isdir else []) + ["-o", out_cli],
                            cwd=work, env=env, capture_output=True, text=True)
        fail_direct, fail_cmake, reached = pd.returncode != 0, pc.returncode != 0, os.path.exists(box.path("reached.txt"))
        if fail_direct != fail_cmake:
            msgs.append(f"status: the command line {'fails' if fail_direct else 'succeeds'} but the configure run {'fails' if fail_cmake else 'succeeds'} "
                        f"(call from: {where}; cmake said {pc.stderr[-160:]!r})")
        if fail_direct and reached:
            msgs.append(f"status: CMinx failed but the configure step went on after cminx_gen_rst() (call from: {where})")
        t_cm = box.files("work/out-cmake") if os.path.isdir(out_cm) else {}
        t_cli = box.files("work/out-cli") if os.path.isdir(out_cli) else {}
        if t_cm != t_cli:
            msgs.append(f"tree: output of cminx_gen_rst during a configure run differs from the direct run (call from: {where})")
    finally:
        box.cleanup()
    msgs = [m.replace(box.root, "<box>") for m in msgs]
    return {"viol": msgs[:3], "obs": common.digest([job, msgs]), "n": 2, "nt": common.digest(job), "cls": msgs[0].split(":")[0] + " project" if msgs else None,
            "case": {"project": list(job)}}


def run(ctx):
    quick = ctx.tier == "quick"
    singles = [[e] if e != "none" else [] for e in EXTRAS]
    pairs = [list(p) for p in itertools.permutations([e for e in EXTRAS if e != "none"], 2)
             if not (p[0] in ("p", "p2", "p3", "p4") and p[1] in ("p", "p2", "p3", "p4"))]
    if quick:
        must = [["e", "e2"], ["p3", "e"], ["p4", "e3"]]
        pairs = must + [p for i, p in enumerate(pairs) if (i + ctx.seed) % 3 == 0 and p not in must]
    if not quick:
        pairs += [list(t) for t in itertools.permutations(["p", "e", "s", "e2"], 3)]
    jobs = [(inp, ex) for inp in INPUTS for ex in singles + pairs]
    for inp in INPUTS:
        for ex in ([], ["p"], ["s"], ["e", "s"]):
            jobs.append((inp, ex, "in-function"))
            jobs.append((inp, ex, "relative"))
            jobs.append((inp, ex, "relative-from-elsewhere"))
    ctx.cov["bounds"] = {"inputs": INPUTS, "extras": EXTRAS, "cases": len(jobs)}
    ctx.sweep(run_case, jobs, space="inputs x extra-argument lists", selftest=1, chunk=1, isolate=False)
    seq = [(inp, e1, e2, edit) for inp in ("file", "flat", "nested")
           for e1, e2, edit in (([], [], "content"), ([], ["p"], "none"), (["p"], [], "content"), ([], [], "break"))]
    ctx.sweep(run_sequence, seq, space="two calls on one output directory with an edit in between", selftest=0, chunk=1, isolate=False)
    pj = [(inp, where) for inp in ("flat", "missing", "baddir", "badfile", "file") for where in ("top", "subdirectory", "subproject")]
    ctx.sweep(run_project, pj, space="calls during a configure run (top level, sub-directory, sub-project)", selftest=0, chunk=1, isolate=False)
    ctx.sweep(run_two_calls, ["punctuation-files", "punctuation-dirs", "rewrite", "rewrite-broken"],
              space="two calls in one CMake run", selftest=0, chunk=1, isolate=False)
    ctx.assumptions += ["empty-string extra arguments are not generated (CMake list expansion drops them by design)",
                        "the package config template (needs an installed build) is not executed; CMINX_EXECUTABLE is bound by the driver"]
    return RULE


def replay(case):
    if isinstance(case, dict) and "project" in case:
        return run_project(tuple(case["project"]))["viol"]
    if isinstance(case, dict) and "two_calls" in case:
        return run_two_calls(case["two_calls"])["viol"]
    if len(case) == 4:
        return run_sequence(tuple(case))["viol"]
    return run_case(tuple(case))["viol"]
