"""C06 - unreadable input fails loudly, never silently truncated (fault enumeration)."""
import functools
import os
import shutil
import subprocess
import sys

from .. import common, pipeline, reflex

ID = "C06"
LEVEL = "fault_enumeration"
RULE = ("9 valid base modules (one with code behind a top-level return(), one starting with a byte order mark) (one of them without any doccomment or documentable command) x every character offset outside comments and outside the interior of quoted/bracket "
        "arguments x 12 fault kinds (stray quote, backslash+alnum, backslash at EOF, unterminated '#[[' / '#[=[', extra "
        "'(' / ')', deleted '(' / ')', bare word in three spellings), singly and (thorough) in pairs; a mutant is judged only if the "
        "reference tokenizer rejects it and - wherever CMake can see the fault - cmake itself rejects it too.  Oracle: "
        "Documenter.process() must raise; the CLI must exit non-zero and write no page for the faulty file (single-file, "
        "directory and recursive directory mode).  non-trivial = every judged mutant; distinct by mutant text")

BASES = {
    "flat_sets": "#[[[\n# First.\n#]]\nset(A 1)\n#[[[\n# Second.\n#]]\nset(B \"two words\")\n#[[[\n# Third.\n#]]\nset(C x y)\n",
    "function_body": "#[[[\n# Doc of f.\n#]]\nfunction(f a b)\n  message(STATUS \"in f ${a}\")\n  set(L ${b} PARENT_SCOPE)\nendfunction()\nf(1 2)\n",
    "class_member": "cpp_class(K Base)\n  #[[[\n  # attr\n  #]]\n  cpp_attr(K color red)\n  cpp_member(run K int)\n  function(\"${run}\" self n)\n    set(x ${n})\n  endfunction()\ncpp_end_class()\n",
    "test_section": "ct_add_test(NAME t1)\nfunction(${t1})\n  ct_add_section(NAME s1 EXPECTFAIL)\n  function(${s1})\n    message(FATAL_ERROR boom)\n  endfunction()\nendfunction()\n",
    "argument_forms": "#[[[\n# forms\n#]]\nset(V a\;b \"q \\\"x\\\" ;\" [[br ack]] [=[l1]]]=] (c (d)) ${r}/p -Dk=v)\nif(NOT (A AND B))\nendif()\n",
    "plain_commands": "set(V 1)\nif(V)\n  message(STATUS \"v is ${V}\")\nendif()\nforeach(i a b)\n  list(APPEND L ${i})\nendforeach()\n",
    "after_return": "set(A 1)\nif(A)\n  return()\nendif()\nreturn()\n#[[[\n# Never defined at run time.\n#]]\nfunction(late a)\n  message(STATUS \"late ${a}\")\nendfunction()\nset(B 2)\n",
    "bom_header": "\ufeffcmake_minimum_required(VERSION 3.20)\ninclude_guard()\n#[[[\n# Doc.\n#]]\nset(A 1)\n",
    "no_final_newline": "# leading comment\noption(OPT \"help\" ON)\nmacro(m x)\nendmacro()\n#[[ block ]]\nadd_test(NAME n COMMAND c)",
}

PRELUDE = """cmake_policy(VERSION 3.25)
foreach(_c cpp_class cpp_end_class cpp_attr cpp_member cpp_constructor ct_add_test ct_add_section add_test f)
  if(NOT COMMAND ${_c})
    function(${_c})
    endfunction()
  endif()
endforeach()
function(add_test)
endfunction()
set(t1 _t1)
set(s1 _s1)
set(run _run)
include("${F}")
message(STATUS "REACHED-END")
"""


def faults_at(text, pos):
    """(kind, mutant) for one position"""
    out = []
    ins = [("quote", '"'), ("bad_escape", "\\q"), ("bad_escape_upper", "\\T"), ("open_bracket_comment0", "#[["), ("open_bracket_comment1", "#[=["),
           ("lparen", "("), ("rparen", ")"), ("bare_word", " stray "), ("bare_at", " @PKG_INIT@ "), ("bare_ref", " ${stray} ")]
    for k, s in ins:
        out.append((k, text[:pos] + s + text[pos:]))
    if pos < len(text) and text[pos] in "()":
        out.append(("delete_paren", text[:pos] + text[pos + 1:]))
    return out


def mutants(name, text, pairs=False):
    res = []
    pos = reflex.outside_positions(text)
    for p in pos:
        for k, m in faults_at(text, p):
            res.append((name, k, p, m))
    res.append((name, "backslash_eof", len(text), text + "\\"))
    res.append((name, "backslash_eof", len(text), text.rstrip("\n") + " \\"))
    return res


def cmake_rejects(path):
    d = os.path.dirname(path)
    pre = os.path.join(d, "prelude.cmake")
    if not os.path.exists(pre):
        with open(pre, "w") as f:
            f.write(PRELUDE)
    p = subprocess.run(["cmake", f"-DF={path}", "-P", pre], capture_output=True, text=True)
    return p.returncode != 0 and "REACHED-END" not in p.stdout, (p.stderr or p.stdout)[-300:]


def judge_mutant(job, use_cmake=True):
    # every mutant is judged in a child forked from a process that never parsed anything, so that the verdict does not
    # depend on which mutants this worker happened to see before (and reproduces from its replay file)
    return common.in_fork(_judge_mutant, job, use_cmake)


def judge_sequence(job):
    """two faulty modules documented one after the other in ONE process (API use): both must be rejected"""
    return common.in_fork(_judge_sequence, job)


def _judge_sequence(job):
    (n1, k1, p1, t1), (n2, k2, p2, t2) = job
    msgs = []
    r1 = pipeline.document_text(t1)
    r2 = pipeline.document_text(t2)
    for which, r, (n, k, p) in (("first", r1, (n1, k1, p1)), ("second", r2, (n2, k2, p2))):
        if r["page"] is not None:
            msgs.append(f"silent-sequence: the {which} of two faulty modules documented in one process ({k} at offset {p} "
                        f"of {n}) yields a page instead of failing")
    return {"viol": msgs, "obs": common.digest([r1["error"], r2["error"]]), "nt": common.digest([t1, t2]), "n": 2,
            "cls": "silent-sequence" if msgs else None,
            "case": {"sequence": [[n1, k1, p1, t1], [n2, k2, p2, t2]]}}


def judge_rewrite(job):
    """a valid module is documented, then the same path is overwritten with a faulty version of it (pinned
    modification time) and documented again in the same process: the second run must fail"""
    return common.in_fork(_judge_rewrite, job)


def _judge_rewrite(job):
    name, kind, pos, text = job
    base = BASES[name.split("+")[0]]
    r1 = pipeline.document_text(base, mtime=pipeline.FIXED_MTIME)
    r2 = pipeline.document_text(text, mtime=pipeline.FIXED_MTIME)
    msgs = []
    if r1["page"] is None:
        msgs.append(f"error: valid base module {name} is rejected")
    if r2["page"] is not None:
        msgs.append(f"silent-rewrite: {name} documented, then overwritten with {kind} at offset {pos} and documented "
                    f"again in the same process: a page is returned instead of an error")
    return {"viol": msgs, "obs": common.digest([r1["error"], r2["error"]]), "nt": common.digest(text), "n": 2,
            "cls": msgs[0].split(":")[0] if msgs else None,
            "case": {"rewrite": [name, kind, pos, text]}}


ANCESTORS = ["build", "_deps", "CMakeFiles", ".git", ".hidden", "node_modules", "tmp", "docs", "test", "mods[v2]", "a*b?", "{x,y}"]


def logging_config(name):
    """a complete logging section (the shipped one with one thing changed; the section is not merged with the default)"""
    import copy
    import yaml
    lg = copy.deepcopy(pipeline.yaml_defaults()["logging"])
    if name.startswith("logger-"):
        lg["loggers"]["cminx"]["level"] = name[7:].upper()
        if name == "logger-critical":
            lg["root"]["level"] = "CRITICAL"
    elif name == "console-error":
        lg["handlers"]["console"]["level"] = "ERROR"
    elif name == "no-handlers":
        lg["loggers"]["cminx"]["handlers"] = []
        lg["root"]["handlers"] = []
    return yaml.safe_dump({"logging": lg})


LOGCFG = ["logger-info", "logger-warning", "logger-critical", "console-error", "no-handlers"]


def cli_logging(job):
    """the faulty file through the command line under logging configurations other than the shipped one: how much is
    logged must not decide whether the run fails"""
    name, kind, pos, text, cfgname = job
    root = os.path.join(pipeline.tmpdir(), f"log-{common.digest([text, cfgname])}")
    shutil.rmtree(root, ignore_errors=True)
    os.makedirs(os.path.join(root, "in"))
    os.makedirs(os.path.join(root, "cfg"))
    with open(os.path.join(root, "in", "bad.cmake"), "w", encoding="utf-8") as f:
        f.write(text)
    with open(os.path.join(root, "in", "good.cmake"), "w") as f:
        f.write(BASES["flat_sets"])
    with open(os.path.join(root, "log.yaml"), "w") as f:
        f.write(logging_config(cfgname))
    env = dict(os.environ, CMINXDIR=os.path.join(root, "cfg"), HOME=root, XDG_CONFIG_HOME=os.path.join(root, "cfg"),
               PWD=os.path.join(root, "cfg"))
    code = CLI % common.REPO_SRC
    msgs = []
    ok = subprocess.run([common.PYTHON, "-c", code, "-s", os.path.join(root, "log.yaml"), "-o", os.path.join(root, "out-good"),
                         os.path.join(root, "in", "good.cmake")], capture_output=True, text=True, env=env, cwd=root)
    if ok.returncode != 0:      # the configuration itself must be acceptable, else a failing run proves nothing
        raise common.HarnessFault(f"logging configuration {cfgname} is rejected for a valid module: {ok.stderr[-300:]}")
    for label, args in (("file", [os.path.join(root, "in", "bad.cmake")]), ("directory", ["-r", os.path.join(root, "in")])):
        out = os.path.join(root, "out-" + label)
        p = subprocess.run([common.PYTHON, "-c", code, "-s", os.path.join(root, "log.yaml"), "-o", out] + args,
                           capture_output=True, text=True, env=env, cwd=root)
        wrote = os.path.exists(os.path.join(out, "bad.rst"))
        if p.returncode == 0 or wrote:
            msgs.append(f"silent-cli: logging configuration {cfgname}: `cminx -s log.yaml -o out <{label}>` exits {p.returncode}"
                        f"{' and wrote bad.rst' if wrote else ''} for {kind} at offset {pos} of {name}")
    shutil.rmtree(root, ignore_errors=True)
    return {"viol": msgs, "obs": common.digest([cfgname, not msgs]), "nt": common.digest([text, cfgname]), "n": 2,
            "cls": f"silent-cli logging {cfgname}" if msgs else None, "case": {"logging": [name, kind, pos, text, cfgname]}}


def cli_many(job):
    """n faulty files named on one command line / one faulty file below directories with names that tools like to skip"""
    name, kind, pos, text, n, where = job
    root = os.path.join(pipeline.tmpdir(), f"many-{common.digest([text, n, where])}")
    shutil.rmtree(root, ignore_errors=True)
    ind = os.path.join(root, *(ANCESTORS if where == "ancestors" else []), "in")
    os.makedirs(ind)
    os.makedirs(os.path.join(root, "cfg"))
    files = []
    for i in range(n):
        files.append(os.path.join(ind, f"bad{i}.cmake"))
        with open(files[-1], "w", encoding="utf-8") as f:
            f.write(text)
    env = dict(os.environ, CMINXDIR=os.path.join(root, "cfg"), HOME=root, XDG_CONFIG_HOME=os.path.join(root, "cfg"),
               PWD=os.path.join(root, "cfg"))     # (PWD: a decoy inside the sandbox, never the harness's directory)
    code = CLI % common.REPO_SRC
    msgs = []
    out = os.path.join(root, "out")
    p = subprocess.run([common.PYTHON, "-c", code, "-o", out] + files, capture_output=True, text=True, env=env, cwd=root)
    wrote = [f for f in (os.listdir(out) if os.path.isdir(out) else []) if f.startswith("bad")]
    if p.returncode == 0 or wrote:
        msgs.append(f"silent-cli: `cminx -o out <{n} faulty file(s)>`{' below ' + '/'.join(ANCESTORS) if where == 'ancestors' else ''} "
                    f"exits {p.returncode}{' and wrote ' + str(sorted(wrote)[:3]) if wrote else ''} ({kind} at offset {pos} of {name})")
    if where == "names":
        # a lone faulty file under names without a dot / with a leading dot / with another extension (named explicitly: read)
        for nm in ("HelloModule", "CMakeLists", ".hidden-rules", "rules.cmake.in", "CMakeLists.txt"):
            pth = os.path.join(ind, nm)
            with open(pth, "w", encoding="utf-8") as f:
                f.write(text)
            for extra in ([], ["-o", os.path.join(root, "out-" + nm)]):
                pn = subprocess.run([common.PYTHON, "-c", code] + extra + [pth], capture_output=True, text=True, env=env, cwd=root)
                if pn.returncode == 0:
                    msgs.append(f"silent-cli: `cminx {' '.join(extra[:1])} {nm}` (a lone faulty file) exits 0 ({kind} at offset {pos} of {name})")
    if where == "overlap":
        # inputs that overlap: a directory and its sub-directory (which holds the faulty file), non-recursive, both orders
        sub = os.path.join(ind, "sub")
        os.makedirs(sub, exist_ok=True)
        with open(os.path.join(sub, "bad_in_sub.cmake"), "w", encoding="utf-8") as f:
            f.write(text)
        os.remove(files[0])
        with open(os.path.join(ind, "good.cmake"), "w") as f:
            f.write(BASES["flat_sets"])
        for order in ([ind, sub], [sub, ind], [ind, os.path.join(sub, "bad_in_sub.cmake")]):
            po = subprocess.run([common.PYTHON, "-c", code, "-o", os.path.join(root, "out-ov")] + order, capture_output=True, text=True, env=env, cwd=root)
            if po.returncode == 0:
                msgs.append(f"silent-cli: `cminx -o out {' '.join(os.path.relpath(x, root) for x in order)}` exits 0 although sub/bad_in_sub.cmake "
                            f"has {kind} at offset {pos}")
    if where == "ancestors":
        out2 = os.path.join(root, "out2")
        p2 = subprocess.run([common.PYTHON, "-c", code, "-r", "-o", out2, ind], capture_output=True, text=True, env=env, cwd=root)
        if p2.returncode == 0:
            msgs.append(f"silent-cli: `cminx -r -o out dir` below {'/'.join(ANCESTORS)} exits 0 although dir/bad0.cmake has {kind} at offset {pos}")
    shutil.rmtree(root, ignore_errors=True)
    return {"viol": msgs, "obs": common.digest([p.returncode]), "nt": common.digest([text, n, where]), "n": 1,
            "cls": f"silent-cli {where}" if msgs else None,
            "case": {"many": [name, kind, pos, text, n, where]}}


def _judge_mutant(job, use_cmake=True):
    name, kind, pos, text = job
    try:
        reflex.parse(text)
        return {"viol": [], "obs": None, "nt": None, "n": 0, "judged": False, "why": "valid"}
    except reflex.LexError as e:
        why = e.msg
    if why.startswith("expected a newline after"):
        # two complete commands on one line: CMake rejects it, but it is none of the faults the property lists
        return {"viol": [], "obs": None, "nt": None, "n": 0, "judged": False, "why": "not a listed fault: " + why}
    if use_cmake:
        path = pipeline.write_tmp(text, "mutant.cmake")
        rej, out = cmake_rejects(path)
        if not rej:
            if "escape" in why:
                pass   # CMake diagnoses a bad escape only when the command is executed; the manual's rule stands alone
            else:
                return {"viol": [], "obs": None, "nt": None, "n": 0, "judged": False, "why": "cmake accepts: " + why}
    r = pipeline.document_text(text)
    msgs = []
    if r["page"] is not None:
        msgs.append(f"silent: {kind} at offset {pos} of {name} ({why}): Documenter.process() returned a page "
                    f"({len(r['page'])} chars) instead of failing")
    else:
        # the same under a logging configuration in which DEBUG records are formatted (a handler at DEBUG level)
        import io
        import logging
        h = logging.StreamHandler(io.StringIO())
        h.setLevel(logging.DEBUG)
        lg = logging.getLogger("cminx")
        old = lg.level
        lg.addHandler(h)
        lg.setLevel(logging.DEBUG)
        try:
            r2 = pipeline.document_text(text)
        finally:
            lg.removeHandler(h)
            lg.setLevel(old)
        if r2["page"] is not None:
            msgs.append(f"silent: {kind} at offset {pos} of {name} ({why}): with a DEBUG logging handler "
                        f"Documenter.process() returned a page instead of failing")
    return {"viol": msgs, "obs": common.digest(r["error"] or r["page"]), "nt": common.digest(text), "n": 1,
            "judged": True, "why": why, "cls": f"silent {kind}" if msgs else None,
            "case": {"name": name, "kind": kind, "pos": pos, "text": text}}


CLI = ("import sys; sys.path.insert(0, %r); import warnings; warnings.filterwarnings('ignore'); import cminx; "
       "cminx.main(sys.argv[1:])")


def cli_case(job):
    """single-file and recursive CLI runs for one judged mutant"""
    name, kind, pos, text = job
    root = os.path.join(pipeline.tmpdir(), f"cli-{common.digest(text)}")
    shutil.rmtree(root, ignore_errors=True)
    os.makedirs(os.path.join(root, "in", "sub"))
    os.makedirs(os.path.join(root, "cfg"))
    with open(os.path.join(root, "in", "bad.cmake"), "w", encoding="utf-8") as f:
        f.write(text)
    for g in ("in/a_good.cmake", "in/z_good.cmake", "in/sub/deep.cmake"):
        with open(os.path.join(root, g), "w") as f:
            f.write(BASES["flat_sets"])
    env = dict(os.environ, CMINXDIR=os.path.join(root, "cfg"), HOME=root, XDG_CONFIG_HOME=os.path.join(root, "cfg"),
               PWD=os.path.join(root, "cfg"))     # (PWD: a decoy inside the sandbox, never the harness's directory)
    msgs = []
    code = CLI % common.REPO_SRC
    with open(os.path.join(root, "debug.yaml"), "w") as f:
        f.write("logging:\n  handlers:\n    console:\n      level: DEBUG\n")
    p0 = subprocess.run([common.PYTHON, "-c", code, "-s", os.path.join(root, "debug.yaml"), "-o", os.path.join(root, "out0"),
                         os.path.join(root, "in", "bad.cmake")], capture_output=True, text=True, env=env, cwd=root)
    if p0.returncode == 0 or os.path.exists(os.path.join(root, "out0", "bad.rst")):
        msgs.append(f"silent-cli: `cminx -s debug-logging.yaml -o out bad.cmake` exits {p0.returncode} "
                    f"{'and wrote bad.rst ' if os.path.exists(os.path.join(root, 'out0', 'bad.rst')) else ''}"
                    f"for {kind} at offset {pos} of {name}")
    p1 = subprocess.run([common.PYTHON, "-c", code, "-o", os.path.join(root, "out1"), os.path.join(root, "in", "bad.cmake")],
                        capture_output=True, text=True, env=env, cwd=root)
    if p1.returncode == 0:
        msgs.append(f"silent-cli: `cminx -o out bad.cmake` exits 0 for {kind} at offset {pos} of {name}")
    if os.path.exists(os.path.join(root, "out1", "bad.rst")):
        msgs.append(f"silent-cli: `cminx -o out bad.cmake` wrote bad.rst for {kind} at offset {pos} of {name}")
    p2 = subprocess.run([common.PYTHON, "-c", code, "-r", "-o", os.path.join(root, "out2"), os.path.join(root, "in")],
                        capture_output=True, text=True, env=env, cwd=root)
    if p2.returncode == 0:
        msgs.append(f"silent-cli: `cminx -r -o out dir` exits 0 although dir/bad.cmake has {kind} at offset {pos}")
    if os.path.exists(os.path.join(root, "out2", "bad.rst")):
        msgs.append(f"silent-cli: `cminx -r -o out dir` wrote bad.rst for {kind} at offset {pos} of {name}")
    # the faulty module in a sub-directory, next to nothing, with the base name of a good module one level up
    os.makedirs(os.path.join(root, "in2", "sub"))
    for g in ("in2/util.cmake", "in2/sub/other.cmake"):
        with open(os.path.join(root, g), "w") as f:
            f.write(BASES["flat_sets"])
    with open(os.path.join(root, "in2", "sub", "util.cmake"), "w", encoding="utf-8") as f:
        f.write(text)
    p4 = subprocess.run([common.PYTHON, "-c", code, "-r", "-o", os.path.join(root, "out4"), os.path.join(root, "in2")],
                        capture_output=True, text=True, env=env, cwd=root)
    if p4.returncode == 0 or os.path.exists(os.path.join(root, "out4", "sub", "util.rst")):
        msgs.append(f"silent-cli: `cminx -r -o out dir` exits {p4.returncode} although dir/sub/util.cmake (same base name as "
                    f"the good dir/util.cmake) has {kind} at offset {pos}")
    p3 = subprocess.run([common.PYTHON, "-c", code, "-o", os.path.join(root, "out3"), os.path.join(root, "in")],
                        capture_output=True, text=True, env=env, cwd=root)
    if p3.returncode == 0:
        msgs.append(f"silent-cli: `cminx -o out dir` (not recursive) exits 0 although dir/bad.cmake has {kind} at offset {pos}")
    if os.path.exists(os.path.join(root, "out3", "bad.rst")):
        msgs.append(f"silent-cli: `cminx -o out dir` (not recursive) wrote bad.rst for {kind} at offset {pos} of {name}")
    shutil.rmtree(root, ignore_errors=True)
    return {"viol": msgs, "obs": common.digest([p1.returncode, p2.returncode, p3.returncode]), "nt": common.digest(text), "n": 4,
            "cls": f"silent-cli {kind}" if msgs else None, "case": {"name": name, "kind": kind, "pos": pos, "text": text, "cli": True}}


def run(ctx):
    quick = ctx.tier == "quick"
    jobs = []
    for name, text in BASES.items():
        if not reflex.valid(text):
            raise common.HarnessFault(f"base module {name} is not valid CMake")
        jobs += mutants(name, text)
    if not quick:
        # pairs of faults on the three smallest bases
        small = sorted(BASES.items(), key=lambda kv: len(kv[1]))[:3]
        for name, text in small:
            singles = mutants(name, text)
            for (_, k1, p1, m1) in singles[::7]:
                for (_, k2, p2, m2) in mutants(name + "+" + k1, m1)[::5] if reflex_scan_ok(m1) else []:
                    jobs.append((name, f"{k1}+{k2}", p1 * 10000 + p2, m2))
    # every base must be accepted by cmake (prelude sanity) and by CMinx
    for name, text in BASES.items():
        path = pipeline.write_tmp(text, "base.cmake")
        rej, out = cmake_rejects(path)
        if rej:
            raise common.HarnessFault(f"cmake rejects base module {name}: {out}")
        if pipeline.document_text(text)["page"] is None:
            ctx.violation({"name": name, "kind": "none", "pos": 0, "text": text}, [f"error: valid base module {name} is rejected"])
    results = ctx.sweep(judge_mutant, jobs, space="in-process mutants", selftest=5, isolate=False)
    judged = [j for j, r in zip(jobs, results) if r["judged"]]
    ctx.cov["mutants_generated"] = len(jobs)
    ctx.cov["mutants_judged"] = len(judged)
    ctx.cov["mutants_valid_or_accepted_by_cmake"] = len(jobs) - len(judged)
    ctx.cov["states"] = len(judged)
    why = {}
    for r in results:
        if r["judged"]:
            why[r["why"].split(" \\")[0]] = why.get(r["why"].split(" \\")[0], 0) + 1
    ctx.cov["judged_by_reference_diagnosis"] = why
    # CLI confirmations: for every base and fault kind the first, middle and last judged position
    byk = {}
    for j in judged:
        byk.setdefault((j[0], j[1]), []).append(j)
    cli = []
    for k, lst in sorted(byk.items()):
        if quick:   # three positions on one base, the middle one on the others
            picks = {0, len(lst) // 2, len(lst) - 1} if k[0] == "flat_sets" else {len(lst) // 2}
        else:
            picks = set(range(0, len(lst), max(1, len(lst) // 12)))
        cli += [lst[i] for i in sorted(picks)]
    ctx.sweep(cli_case, cli, space="CLI subprocess (single file, directory, recursive directory)", selftest=0, chunk=1, isolate=False)
    # process histories: every ordered pair out of a spread of judged mutants (first, middle, last of each fault kind on
    # one base) documented in one process
    spread = []
    for k, lst in sorted(byk.items()):
        if k[0] == "flat_sets":
            spread += [lst[0], lst[len(lst) // 2], lst[-1]]
    pairs = [(a, b) for a in spread for b in spread] if not quick else [(a, b) for a in spread[::2] for b in spread[::2]]
    ctx.sweep(judge_sequence, pairs, space="two faulty modules in one process", selftest=0, isolate=False)
    # the same path first valid, then faulty, in one process
    rw = [j for k, lst in sorted(byk.items()) for j in ([lst[0], lst[len(lst) // 2], lst[-1]] if quick else lst[::3])
          if j[0] in BASES]
    ctx.sweep(judge_rewrite, rw, space="valid module overwritten with a faulty one, one process", selftest=0, isolate=False)
    # many faulty inputs on one command line (exit statuses are 8 bits wide); inputs below oddly named directories
    many = []
    for k, lst in sorted(byk.items()):
        if k[0] == "flat_sets":
            j = lst[len(lst) // 2]
            many.append(j + (1, "ancestors"))
            if k[1] in ("quote", "rparen", "bare_word") or not quick:
                many += [j + (1, "names"), j + (1, "overlap")]
            if k[1] in ("quote", "rparen") or not quick:
                many += [j + (n, "plain") for n in ((2, 256) if quick else (2, 3, 255, 256, 257, 512))]
    ctx.sweep(cli_many, many, space="CLI: n faulty inputs / odd ancestor directories", selftest=0, chunk=1, isolate=False)
    lj = [lst[len(lst) // 2] + (c,) for k, lst in sorted(byk.items()) if k[0] == "flat_sets" for c in LOGCFG]
    ctx.sweep(cli_logging, lj, space="CLI under other logging configurations", selftest=0, chunk=1, isolate=False)
    ctx.cov["bounds"] = {"bases": list(BASES), "fault_kinds": 13, "cli_confirmations": len(cli), "logging_configurations": list(LOGCFG),
                         "inputs_per_command_line": [1, 2, 256] if quick else [1, 2, 3, 255, 256, 257, 512],
                         "ancestor_directory_names": ANCESTORS}
    ctx.assumptions += ["a mutant that cmake accepts (legacy unquoted forms, faults that re-pair with later text) is not judged",
                        "bad escapes inside function bodies are judged by the manual's rule alone (CMake checks them at execution)"]
    return RULE


def reflex_scan_ok(t):
    try:
        reflex.scan(t)
        return True
    except reflex.LexError:
        return False


def replay(case):
    if "sequence" in case:
        return judge_sequence(tuple(tuple(x) for x in case["sequence"]))["viol"]
    if "rewrite" in case:
        return judge_rewrite(tuple(case["rewrite"]))["viol"]
    if "logging" in case:
        return cli_logging(tuple(case["logging"]))["viol"]
    if "many" in case:
        return cli_many(tuple(case["many"]))["viol"]
    job = (case["name"], case["kind"], case["pos"], case["text"])
    if case.get("cli"):
        return cli_case(job)["viol"]
    return judge_mutant(job)["viol"]
