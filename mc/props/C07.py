"""C07 - generated reST is structurally well formed (bounded-exhaustive inputs, docutils oracle)."""
import functools
import itertools
import re

from .. import common, cmakegen, pipeline, refmodel, rstobs

ID = "C07"
RULE = ("every carrier (each entry kind, documented and undocumented; classes with attributes/members/constructors, "
        "classes nested to depth 3; tests with sections) x every sequence of <=N valid reST constructs (paragraph, two "
        "paragraphs, field list, bullet list, enumerated list, literal block, nested directive with indented body, "
        "inline-argument directive, definition list, trailing blank line, empty) in each doc slot, plus every ordered "
        "pair of adjacent carriers; the page is parsed by docutils with stub directives.  Oracle: no system message of "
        "level >=3; title, then module stub, then entry stubs as the only top-level nodes; every marker planted in a doc "
        "is found in exactly that entry's own subtree; kind-specific children (note/warning/fields/value option/member "
        "stubs) are inside their entry.  non-trivial = >=1 documented slot; distinct by (carrier, constructs)")


def constructs(tag):
    """valid reST constructs, each carrying the marker `tag`"""
    return [
        [f"A paragraph {tag}."],
        [f"First paragraph {tag}.", "", "Second paragraph."],
        [f":fld: value {tag}", ":other: more"],
        [f"* item one {tag}", "* item two"],
        [f"1. first {tag}", "2. second"],
        ["Example::", "", f"   literal {tag} line", "   more"],
        [".. note::", "", f"   inside note {tag}", "   second line"],
        [f".. warning:: inline {tag}"],
        [f"term {tag}", "   definition body"],
        [f"Ends with blank {tag}.", ""],
        [],
        [".. admonition:: Tip", "   :class: hint", "", f"   body of the tip {tag}"],      # nested directives with options
        [".. figure:: logo.png", "   :alt: a logo", "   :width: 10", "", f"   caption {tag}"],
        [f"Lead-in {tag}.", "", ".. image:: preview.png", "   :width: 200"],       # the text ends with a directive's option line
        # some lines of a paragraph are typed without the optional space after '#'
        [f"<nospace>First line {tag}", "<nospace>second line of the same paragraph", "third line, typed with the space", "",
         ".. note::", "", "   body of the note"],
        [f"Lead-in {tag}.", "", ".. code:: cmake", "   :number-lines:", "", "   set(X 1)", "", "..", "   :not-a-field: an indented comment"],
    ]


NCON = len(constructs("x"))


def doc_for(src, seq):
    """doc text of slot `src` for a sequence of construct indices; returns (lines, markers)"""
    lines, marks = [], []
    for j, c in enumerate(seq):
        tag = f"MK{src}x{j}"
        part = constructs(tag)[c]
        if part:
            marks.append(tag)
        if lines and part:
            lines.append("")
        lines += part
    return lines, marks


CARRIERS = {
    "function": lambda: [{"k": "function", "doc": 1, "params": ["a"]}],
    "macro": lambda: [{"k": "macro", "doc": 1, "params": ["a"]}],
    "set": lambda: [{"k": "set", "doc": 1, "values": ["a", "b"]}],
    "option": lambda: [{"k": "option", "doc": 1}],
    "generic": lambda: [{"k": "generic", "doc": 1}],
    "add_test": lambda: [{"k": "add_test", "doc": 1}],
    "ct_add_test": lambda: [{"k": "ct_add_test", "doc": 1, "expectfail": 1}],
    "test+section": lambda: [{"k": "ct_add_test", "doc": 1}, {"k": "ct_add_section", "doc": 1},
                             {"k": "ct_add_section", "doc": 1}],
    "test+section_macro": lambda: [{"k": "ct_add_test", "doc": 1, "impl": "macro"},
                                   {"k": "ct_add_section", "doc": 1, "impl": "macro", "expectfail": 1}],
    "long_list": lambda: [{"k": "set", "doc": 1, "values": [f"src/some_directory/file_name_{n}.cpp" for n in range(8)]},
                          {"k": "option", "doc": 1, "help": '"' + "a very long help text " * 6 + '"'}],
    "class_full": lambda: [{"k": "cpp_class", "doc": 1, "bases": ["Base"]}, {"k": "cpp_attr", "doc": 1, "default": "dv"},
                           {"k": "cpp_member", "doc": 1, "types": ["int", "str"], "params": ["a", "b"]}, {"k": "close"},
                           {"k": "cpp_constructor", "doc": 1, "types": ["int"], "params": ["x"], "impl": "macro"},
                           {"k": "close"}, {"k": "cpp_attr", "doc": 1}],
    "class_nested3": lambda: [{"k": "cpp_class", "doc": 1}, {"k": "cpp_member", "doc": 1, "types": ["int"], "params": ["a"]},
                              {"k": "close"}, {"k": "cpp_class", "doc": 1}, {"k": "cpp_attr", "doc": 1, "default": "1"},
                              {"k": "cpp_class", "doc": 1},
                              {"k": "cpp_member", "doc": 1, "types": ["args"], "params": [], "impl": "macro"}],
    "class_two_inner": lambda: [{"k": "cpp_class", "doc": 1}, {"k": "cpp_class", "doc": 1}, {"k": "close"},
                                {"k": "cpp_class", "doc": 0}, {"k": "close"},
                                # members of the outer class declared after its inner classes were closed
                                {"k": "cpp_attr", "doc": 1, "default": "late"},
                                {"k": "cpp_member", "doc": 1, "types": ["int"], "params": ["a"]}, {"k": "close"},
                                {"k": "cpp_class", "doc": 1}, {"k": "cpp_attr", "doc": 1}],
    # an inner class that bears the name of an enclosing class
    "class_same_name": lambda: [{"k": "cpp_class", "doc": 1, "name": "Config"}, {"k": "cpp_attr", "doc": 1, "name": "outer_attr"},
                                {"k": "cpp_class", "doc": 1, "name": "Section"},
                                {"k": "cpp_class", "doc": 1, "name": "Config"}, {"k": "cpp_attr", "doc": 1, "name": "inner_attr", "default": "1"},
                                {"k": "cpp_member", "doc": 1, "name": "inner_get", "types": ["desc"], "params": ["out"]}],
    # signatures far longer than any line width a writer might wrap at, top-level and nested in classes
    "long_signature": lambda: [{"k": "function", "doc": 1, "params": [f"a_rather_long_parameter_name_{n}" for n in range(8)]},
                               {"k": "close"},
                               {"k": "cpp_class", "doc": 1},
                               {"k": "cpp_member", "doc": 1, "types": ["desc"] * 6, "params": [f"member_parameter_long_name_{n}" for n in range(6)]},
                               {"k": "close"},
                               {"k": "cpp_class", "doc": 1},
                               {"k": "cpp_constructor", "doc": 1, "types": ["int"] * 5, "params": [f"constructor_argument_number_{n}" for n in range(5)], "impl": "macro"},
                               {"k": "close"}, {"k": "close"}, {"k": "close"},
                               {"k": "ct_add_test", "doc": 1, "name": "a_test_with_a_name_" + "that_is_long_" * 8}],
    "module_doc": lambda: [{"k": "module", "name": "my.module", "doc": 1}, {"k": "function", "doc": 1, "params": []}],
    "module_doc_unnamed": lambda: [{"k": "module", "name": "", "doc": 1}, {"k": "set", "doc": 0}],
    "nothing_to_document": lambda: [{"k": "set", "doc": 0}, {"k": "generic", "doc": 0}, {"k": "if", "doc": 0}],
    "empty_file": lambda: [],
    "undocumented": lambda: [{"k": "function", "doc": 0, "params": ["a"]}, {"k": "close"}, {"k": "macro", "doc": 0},
                             {"k": "close"}, {"k": "option", "doc": 0}, {"k": "cpp_class", "doc": 0},
                             {"k": "cpp_attr", "doc": 0}, {"k": "cpp_member", "doc": 0, "types": ["int"], "params": ["a"]},
                             {"k": "close"}, {"k": "close"}, {"k": "ct_add_test", "doc": 0}, {"k": "ct_add_section", "doc": 0},
                             {"k": "close"}, {"k": "close"}, {"k": "add_test", "doc": 0}],
}


def slots(events):
    return [i for i, ev in enumerate(events) if ev.get("doc")]


def build(spec):
    """spec = [(carrier, {slot_number: seq})...] -> (events, markers by event index)"""
    events, marks = [], {}
    for carrier, assign in spec:
        evs = cmakegen.close([dict(e) for e in CARRIERS[carrier]()])
        base = len(events)
        sl = slots(evs)
        for n, i in enumerate(sl):
            seq = assign.get(str(n), assign.get(n, [0]))
            lines, mk = doc_for(base + i, seq)
            evs[i]["doctext"] = lines
            if not lines:
                evs[i]["doctext"] = []
            marks[base + i] = mk
        events += evs
    return events, marks


def own_text(stub):
    """text of a stub's subtree without nested entry stubs"""
    from docutils import nodes
    out = []

    def rec(n):
        for c in n.children:
            if isinstance(c, nodes.container) and c.get("stub"):
                continue
            if isinstance(c, nodes.Text):
                out.append(c.astext())
            else:
                rec(c)
    rec(stub)
    return " ".join(out)


def own_nodes(stub, cls):
    from docutils import nodes
    res = []

    def rec(n):
        for c in n.children:
            if isinstance(c, nodes.container) and c.get("stub"):
                continue
            if isinstance(c, cls):
                res.append(c)
            if not isinstance(c, nodes.Text):
                rec(c)
    rec(stub)
    return res


def nested_stubs(stub):
    from docutils import nodes
    return [c for c in stub.traverse(nodes.container) if c is not stub and c.get("stub")
            and _parent_stub(c) is stub]


def _parent_stub(n):
    from docutils import nodes
    p = n.parent
    while p is not None:
        if isinstance(p, nodes.container) and p.get("stub"):
            return p
        p = p.parent
    return None


MK = re.compile(r"MK\d+x\d+")


def judge(page_text, events, marks):
    from docutils import nodes
    msgs = []
    doctree, sysmsgs = rstobs.docutils_parse(page_text)
    bad = [m for m in sysmsgs if m[0] >= 3]
    if bad:
        msgs.append(f"docutils: {len(bad)} error-level message(s): {bad[0][1][:160]!r}")
    top = [c for c in doctree.children if not isinstance(c, nodes.system_message)]
    if len(top) == 1 and isinstance(top[0], nodes.section):
        kids = [c for c in top[0].children if not isinstance(c, nodes.system_message)]
    else:
        kids = top
    if not kids or not isinstance(kids[0], nodes.title):
        msgs.append(f"structure: document does not start with one title: {[type(k).__name__ for k in kids[:3]]}")
        return msgs
    rest = kids[1:]
    nonstub = [type(k).__name__ for k in rest if not (isinstance(k, nodes.container) and k.get("stub"))]
    if nonstub:
        msgs.append(f"structure: non-entry nodes at top level: {nonstub[:4]}")
        return msgs
    if not rest or rest[0]["stub"] != "module" or any(k["stub"] == "module" for k in rest[1:]):
        msgs.append(f"structure: module directive is not the single first entry: {[k['stub'] for k in rest[:4]]}")
        return msgs
    exp = refmodel.expected(events)
    stubs = rest[1:]
    if len(stubs) != len(exp):
        msgs.append(f"structure: {len(stubs)} top-level entries, expected {len(exp)}: {[s['arg'] for s in stubs]}")
        return msgs
    want_dir = {"function": "function", "macro": "function", "test": "function", "section": "function",
                "ctest": "function", "generic": "function", "data": "data", "option": "data", "class": "py:class"}

    def check_marks(stub, src, what):
        got = sorted(MK.findall(own_text(stub)))
        want = sorted(marks.get(src, []))
        if got != want:
            msgs.append(f"containment: {what}: markers in its own subtree {got}, planted {want}")

    for e, s in zip(exp, stubs):
        what = f"{e['kind']} {e['name']}"
        if s["stub"] != want_dir[e["kind"]]:
            msgs.append(f"structure: {what} rendered as directive {s['stub']}")
            continue
        check_marks(s, e["src"], what)
        if own_nodes(s, nodes.block_quote):
            # none of the planted constructs is a block quote: text was pushed out of the entry's content column
            msgs.append(f"nesting: {what}: part of its content is parsed as a block quote (inconsistent indentation)")
        adm_note = own_nodes(s, nodes.note)
        adm_warn = own_nodes(s, nodes.warning)
        fields = [f.children[0].astext() for f in own_nodes(s, nodes.field)]
        if e["kind"] in ("macro", "option") and not adm_note:
            msgs.append(f"nesting: {what}: its note is not inside its directive")
        if e["kind"] in ("test", "section", "ctest", "generic") and not adm_warn:
            msgs.append(f"nesting: {what}: its warning is not inside its directive")
        need = {"data": ["Default value", "type"], "option": ["Help text", "Default value", "type"]}.get(e["kind"], [])
        for f in need:
            if f not in fields:
                msgs.append(f"nesting: {what}: field {f!r} is not inside its directive (fields there: {fields})")
        if e["kind"] == "class":
            # the inner-class list inside the entry names exactly the classes defined directly inside it
            listed = [re.sub(r"[`:]|class", "", it.astext()).strip() for bl in own_nodes(s, nodes.bullet_list) for it in bl.children
                      if "class" in it.rawsource or it.astext().strip() in e.get("inner", [])]
            if e.get("inner") is not None and sorted(x for x in listed if x in e["inner"]) != sorted(e["inner"]):
                msgs.append(f"nesting: {what}: inner classes {e['inner']} are not all listed inside its directive (listed: {listed})")
            kids_ = nested_stubs(s)
            members = e["ctors"] + e["methods"] + e["attrs"]
            if len(kids_) != len(members):
                msgs.append(f"nesting: {what}: {len(kids_)} member directives nested in the class, expected {len(members)}")
                continue
            for m in members:
                cand = [k for k in kids_ if k["arg"].split("(")[0].strip() == m["name"]]
                if len(cand) != 1:
                    msgs.append(f"nesting: {what}: member {m['name']} nested {len(cand)} times")
                    continue
                k = cand[0]
                check_marks(k, m["src"], f"member {m['name']} of {e['name']}")
                if "types" in m:
                    if m["macro"] and not own_nodes(k, nodes.note):
                        msgs.append(f"nesting: member {m['name']}: macro note not inside the method directive")
                    mf = [f.children[0].astext() for f in own_nodes(k, nodes.field)]
                    for p, t in zip(m["params"], m["types"]):
                        if f"type {p}" not in mf:
                            msgs.append(f"nesting: member {m['name']}: field 'type {p}' not inside the method directive")
                elif m["has_value"] and "value" not in k["opts"]:
                    msgs.append(f"nesting: attribute {m['name']}: value option not attached to the attribute directive")
    # the module stub holds exactly the markers planted in the module doccomment (none if there is none)
    mod_src = [i for i, ev in enumerate(events) if ev["k"] == "module"]
    want_mod = sorted(marks.get(mod_src[0], [])) if mod_src else []
    if sorted(MK.findall(own_text(rest[0]))) != want_mod:
        msgs.append(f"containment: module directive holds markers {sorted(MK.findall(own_text(rest[0])))}, planted {want_mod}")
    return msgs


CLI_TREE = ["a.cmake", "index.cmake", "Index.cmake", "sub/b.cmake", "sub/index.cmake", "sub/deep/c.cmake", "x.y.cmake"]


def check_cli(job):
    """the documents the command line writes for modules (directory mode, recursive or not): each module's page is a
    module document - one title, one module directive, then entries"""
    from docutils import nodes
    from .. import fsbox
    names, recursive = job[1], job[2]
    box = fsbox.Box("c07")
    msgs = []
    try:
        box.build({"in/" + nm: f"#[[[\n# Doc of {nm}.\n#\n# * item\n#]]\nfunction(fn a)\nendfunction()\noption(OPT \"h\" ON)\n"
                   for nm in names})
        r = box.run((["-r"] if recursive else []) + ["-o", box.path("out"), box.path("work", "in")])
        if r["status"] != 0:
            msgs.append(f"error: run failed: {r['exc'] or r['stdout'][-200:]}")
        else:
            files = box.files("out")
            for nm in names:
                if not recursive and "/" in nm:
                    continue
                page = files.get(nm[:-len(".cmake")] + ".rst")
                if page is None:      # which modules get a document is C13's business (auto-exclusion etc.)
                    continue
                doctree, sysmsgs = rstobs.docutils_parse(page)
                bad = [m for m in sysmsgs if m[0] >= 3]
                if bad:
                    msgs.append(f"docutils: document of module {nm}: {bad[0][1][:120]!r}")
                top = [c for c in doctree.children if not isinstance(c, nodes.system_message)]
                kids = [c for c in top[0].children if not isinstance(c, nodes.system_message)] \
                    if len(top) == 1 and isinstance(top[0], nodes.section) else top
                stubs = [k.get("stub") for k in kids[1:] if isinstance(k, nodes.container)]
                if not kids or not isinstance(kids[0], nodes.title) or stubs[:1] != ["module"] or stubs.count("module") != 1 \
                        or len(stubs) != len(kids) - 1 or stubs[1:] != ["function", "data"]:
                    msgs.append(f"structure: the document written for module {nm} is not title + module directive + its two entries: "
                                f"{[type(k).__name__ for k in kids[:1]]} {stubs}")
    finally:
        box.cleanup()
    msgs = [m.replace(box.root, "<box>") for m in msgs]
    return {"viol": msgs[:4], "obs": common.digest([job, msgs]), "nt": common.digest(job), "cls": msgs[0].split(":")[0] + " cli" if msgs else None}


STDOUT_MODULES = {
    "twins": [{"k": "if", "doc": 0}, {"k": "function", "doc": 1, "name": "twin_fn", "params": ["a"]}, {"k": "close"},
              {"k": "generic", "doc": 0, "cmd": "else", "args": []}, {"k": "function", "doc": 1, "name": "twin_fn", "params": ["a"]}],
    "overloads": [{"k": "cpp_class", "doc": 1}, {"k": "cpp_member", "doc": 1, "name": "resize", "types": ["int"], "params": ["w"]},
                  {"k": "close"}, {"k": "cpp_member", "doc": 0, "name": "resize", "types": ["int", "int"], "params": ["w", "h"]}],
    "same_option_twice": [{"k": "option", "doc": 1, "name": "WITH_X"}, {"k": "option", "doc": 0, "name": "WITH_X"},
                          {"k": "set", "doc": 1, "name": "WITH_X", "values": ["ON"]}],
    "plain": [{"k": "function", "doc": 1, "params": ["a"]}, {"k": "close"}, {"k": "macro", "doc": 0, "params": []}],
}


def check_stdout(spec):
    """the document printed on standard output (no -o, shipped configuration) for modules that trigger no diagnostics:
    it starts with the title, then the module directive"""
    from docutils import nodes
    from .. import fsbox
    name = spec[1]
    box = fsbox.Box("c07s")
    msgs = []
    try:
        box.build({"in/m.cmake": cmakegen.text_of(STDOUT_MODULES[name])})
        r = box.run([box.path("work", "in", "m.cmake")])
        if r["status"] != 0:
            msgs.append(f"error: run failed: {r['exc'] or r['stdout'][-200:]}")
        else:
            doctree, sysmsgs = rstobs.docutils_parse(r["stdout"])
            top = [c for c in doctree.children if not isinstance(c, nodes.system_message)]
            kids = [c for c in top[0].children if not isinstance(c, nodes.system_message)] \
                if len(top) == 1 and isinstance(top[0], nodes.section) else top
            stubs = [k.get("stub") for k in kids[1:] if isinstance(k, nodes.container)]
            if not kids or not isinstance(kids[0], nodes.title) or stubs[:1] != ["module"] or len(stubs) != len(kids) - 1:
                msgs.append(f"structure: the document printed for module '{name}' does not consist of title, module directive, entries: "
                            f"{[type(k).__name__ for k in kids[:3]]} first text {r['stdout'].strip()[:80]!r}")
    finally:
        box.cleanup()
    msgs = [m.replace(box.root, "<box>") for m in msgs]
    return {"viol": msgs, "obs": common.digest([name, msgs]), "nt": common.digest(spec), "cls": (msgs[0].split(":")[0] + " stdout") if msgs else None}


def check_followers(spec):
    """a member/test whose implementing definition carries a doccomment of its own, followed (later, outside) by other
    definitions: each follower keeps its own top-level entry with its own note, the member keeps its own signature.
    (What the documented implementing definition itself is rendered as is not judged here.)"""
    from docutils import nodes
    _, decl, follower, fdoc, gap = spec
    if decl == "member":
        head = [{"k": "cpp_class", "doc": 1}, {"k": "cpp_member", "doc": 1, "impldoc": ["Doc on the definition."], "types": ["int"], "params": ["a"]},
                {"k": "close"}, {"k": "close"}]
    else:
        head = [{"k": "ct_add_test", "doc": 1, "impldoc": ["Doc on the definition."]}, {"k": "close"}]
    mid = [{"k": "set", "doc": 1}, {"k": "option", "doc": 0}] if gap else []
    tail = [{"k": follower, "doc": fdoc, "name": "follower_def", "params": ["level", "message"]}, {"k": "close"},
            {"k": "function", "doc": 1, "name": "last_fn", "params": ["z"]}]
    events = cmakegen.close(head + mid + tail)
    r = pipeline.document_text(cmakegen.text_of(events))
    msgs = []
    if r["page"] is None:
        msgs.append(f"error: pipeline failed: {r['error']}")
    else:
        doctree, sysmsgs = rstobs.docutils_parse(r["page"])
        if [m for m in sysmsgs if m[0] >= 3]:
            msgs.append("docutils: error-level message")
        stubs = [c for c in doctree.traverse(nodes.container) if c.get("stub")]
        top = [c for c in stubs if _parent_stub(c) is None]
        fol = [c for c in top if c["arg"].split("(")[0].strip() == "follower_def"]
        if len(fol) != 1:
            msgs.append(f"structure: the {follower} defined after a {decl} with a documented implementing definition has {len(fol)} "
                        f"top-level entries: {[c['arg'] for c in top]}")
        else:
            if fol[0]["arg"].replace(" ", "") not in ("follower_def(levelmessage)",):
                msgs.append(f"structure: follower entry reads {fol[0]['arg']!r}")
            if bool(own_nodes(fol[0], nodes.note)) != (follower == "macro"):
                msgs.append(f"nesting: the follower {follower}'s note is {'missing from' if follower == 'macro' else 'unexpectedly in'} its directive")
        if decl == "member":
            mem = [c for c in stubs if c["stub"] == "py:method"]
            mname = cmakegen.name_of(events[1], 1)      # (names come from a seed-rotated pool)
            if len(mem) != 1 or mem[0]["arg"].replace(" ", "") != f"{mname}(a)" or own_nodes(mem[0], nodes.note):
                msgs.append(f"nesting: the member's entry is {[c['arg'] for c in mem]} (note inside: {bool(mem and own_nodes(mem[0], nodes.note))}), expected {mname}(a) without a macro note")
        if not any(c["arg"].startswith("last_fn(") for c in top):
            msgs.append("structure: the last function lost its top-level entry")
    return {"viol": msgs, "obs": common.digest(r["page"] or ""), "nt": common.digest(spec), "cls": (msgs[0].split(":")[0] + " followers") if msgs else None}


def check(spec):
    if spec and spec[0] == "<followers>":
        return check_followers(spec)
    if spec and spec[0] == "<stdout>":
        return check_stdout(spec)
    if spec and spec[0] == "<cli>":
        return check_cli(spec)
    leader, case, inline = True, "lower", False
    if spec and spec[0][0] == "<leaderless>":
        leader, spec = False, spec[1:]
    if spec and spec[0][0] == "<inline-closer>":
        inline, spec = True, spec[1:]
    eol = "\n"
    if spec and spec[0][0] == "<crlf>":
        eol, spec = "\r\n", spec[1:]
    if spec and spec[0][0] in ("<upper>", "<mixed>"):
        case, spec = spec[0][0][1:-1], spec[1:]
    events, marks = build(spec)
    text = cmakegen.text_of(events, layout={"leader": leader, "inline_closer": inline, "eol": eol}, case=case)
    r = pipeline.document_text(text)
    if r["page"] is None:
        msgs = [f"error: pipeline failed: {r['error']}"]
    else:
        msgs = judge(r["page"], cmakegen.close(events), marks)
    nt = any(marks.values())
    return {"viol": msgs, "obs": common.digest(r["page"] or ""), "nt": common.digest(spec) if nt else None,
            "cls": msgs[0].split(":")[0] if msgs else None}


def run(ctx):
    quick = ctx.tier == "quick"
    n = 2 if quick else 3
    seqs = [list(s) for k in range(1, n + 1) for s in itertools.product(range(NCON), repeat=k)]
    jobs = []
    for c in CARRIERS:
        ns = len(slots(cmakegen.close(CARRIERS[c]())))
        if ns == 0:
            jobs.append([(c, {})])
        for s in range(ns):
            for seq in (seqs if ns <= 3 or not quick else [q for q in seqs if len(q) <= 2]):
                jobs.append([(c, {str(s): seq})])
    names = [c for c in CARRIERS]
    pair_cons = range(NCON) if not quick else (0, 2, 3, 5, 6, 7, 8, 9)
    for c1 in names:
        for c2 in names:
            if c2.startswith("module_doc"):
                continue        # a module doccomment is only one at the very start of a file
            for a in pair_cons:
                for b in ((0, 6, 8) if quick else range(NCON)):
                    s1 = len(slots(cmakegen.close(CARRIERS[c1]())))
                    jobs.append([(c1, {str(max(s1 - 1, 0)): [a]}), (c2, {"0": [b]})])
    # the same constructs written without '#' leaders on the body lines (unindented block)
    for c in CARRIERS:
        ns = len(slots(cmakegen.close(CARRIERS[c]())))
        for s in range(min(ns, 2)):
            for seq in [q for q in seqs if len(q) <= (1 if quick else 2)]:
                jobs.append([("<leaderless>", {}), (c, {str(s): seq})])
    # CRLF line endings
    for c in CARRIERS:
        ns = len(slots(cmakegen.close(CARRIERS[c]())))
        for s_ in range(min(ns, 2)):
            for seq in ([0], [1], [6], [11], [12], [5, 2], [13]):
                jobs.append([("<crlf>", {}), (c, {str(s_): seq})])
    # the terminator on the line of the last sentence
    for c in CARRIERS:
        ns = len(slots(cmakegen.close(CARRIERS[c]())))
        for s_ in range(ns):
            for seq in ([0], [2], [6], [0, 5], [5, 2]):
                jobs.append([("<inline-closer>", {}), (c, {str(s_): seq})])
    # command names in UPPER and MiXed case (CMake command names are case-insensitive)
    for cs in ("<upper>", "<mixed>"):
        for c in CARRIERS:
            ns = len(slots(cmakegen.close(CARRIERS[c]())))
            for s_ in range(max(ns, 1)):
                for seq in ([0], [6], [2, 5]):
                    jobs.append([(cs, {}), (c, {str(s_): seq} if ns else {})])
    jobs += [["<stdout>", nm] for nm in STDOUT_MODULES]
    for decl in ("member", "test"):
        for follower in ("macro", "function"):
            for fdoc in (0, 1):
                for gap in (0, 1):
                    jobs.append(["<followers>", decl, follower, fdoc, gap])
    # documents as the command line writes them: every subset of two module names out of a tree with colliding names
    for rec in (True, False):
        jobs.append(["<cli>", CLI_TREE, rec])
        for a, b in itertools.combinations(CLI_TREE, 2):
            jobs.append(["<cli>", [a, b], rec])
    ctx.cov["bounds"] = {"constructs": [c for c in constructs("<marker>")], "max_sequence": n,
                         "carriers": list(CARRIERS), "jobs": len(jobs)}
    ctx.sweep(check, jobs, space="carriers x construct sequences + adjacent pairs")
    ctx.assumptions += ["docutils with stub directives for module/function/data/py:class/py:method/py:attribute/toctree "
                        "and a stub :class: role stands in for Sphinx", "argument values contain no line breaks"]
    return RULE


def replay(case):
    if case and case[0] == "<stdout>":
        return check_stdout(case)["viol"]
    if case and case[0] == "<followers>":
        return check_followers(case)["viol"]
    if case and case[0] == "<cli>":
        return check_cli(case)["viol"]
    return check([tuple(x) for x in case])["viol"]   # a leading ("<leaderless>", {}) / ("<upper>", {}) element selects the style
