"""C09 - class entries reflect the cpp_class structure of the source (explicit-state search)."""
import functools

from .. import common, cmakegen, modsearch, statespace
from ..statespace import context

ID = "C09"
RULE = ("explicit-state BFS over histories of cpp_class / cpp_end_class / cpp_attr / cpp_member / cpp_constructor "
        "(0-3 types incl. args, implementing function or macro with 0-3 parameters and bodies containing set, "
        "cmake_parse_arguments, helper definitions), documented or not, with by-standers; canonical key = stack of "
        "open blocks + last event + per-open-class occupancy of the four member groups + listener abstraction; "
        "every transition runs the real pipeline under both member strip patterns.  non-trivial = a class entry with "
        ">=1 member/attribute/inner class is expected; distinct by digest of the expected structure")

MEMBERS = [
    {"k": "cpp_member", "doc": 1, "types": [], "params": []},
    {"k": "cpp_member", "doc": 0, "types": ["int"], "params": ["a"]},
    {"k": "cpp_member", "doc": 1, "types": ["int", "str", "args"], "params": ["_m_a", "b"], "impl": "macro"},
    {"k": "cpp_member", "doc": 1, "types": ["int"], "params": ["_m_a", "b", "c"]},
    {"k": "cpp_member", "doc": 0, "types": ["args"], "params": [], "impl": "macro"},
    {"k": "cpp_member", "doc": 1, "types": ["int", "desc", "str"], "params": ["row", "col", "value"],
     "doctext": ["Fills a cell.", "", ":param row: the row", ":type row: index"]},
    {"k": "cpp_member", "doc": 0, "types": ["str", "int", "bool"], "params": ["name_in", "count_in", "verbose"]},
    {"k": "cpp_member", "doc": 1, "types": ["int", "bool"], "params": ["factor", "keep"], "selfname": "this"},
    {"k": "cpp_member", "doc": 0, "name": "resize", "types": ["int"], "params": ["w"]},     # an overloaded name
    {"k": "cpp_constructor", "doc": 1, "types": ["int"], "params": ["x"]},
    {"k": "cpp_constructor", "doc": 0, "types": [], "params": [], "impl": "macro"},
]
ATTRS = [{"k": "cpp_attr", "doc": 0}, {"k": "cpp_attr", "doc": 1, "default": "dflt"},
         {"k": "cpp_attr", "doc": 1, "default": '"quoted v"'}, {"k": "cpp_attr", "doc": 0, "default": "${ref}"}]
CLASSES = [{"k": "cpp_class", "doc": 0}, {"k": "cpp_class", "doc": 1, "bases": ["Base"]},
           {"k": "cpp_class", "doc": 1, "bases": ["B1", "ns::B2"]}]
CONFIGS = [{}, {"member_parameter_name_strip_regex": "^_[a-z]*_"},
           {"member_parameter_name_strip_regex": "^_m_", "function_parameter_name_strip_regex": "_in$"}, {"member_parameter_name_strip_regex": "_[^_]*$"},
           {"member_parameter_name_strip_regex": r"\A_+|\W+"}]


def enabled(events, maxnest):
    st, kinds, inner = context(events)
    out = []
    if len(st) < maxnest:
        out += CLASSES
        if inner == "cpp_class":
            out += MEMBERS
        out += [{"k": "function", "doc": 1, "params": ["h", "_m_a", "name_in"]}, {"k": "if", "doc": 0}]
    if inner == "cpp_class":
        out += ATTRS
    out += [{"k": "set", "doc": 0}, {"k": "cmake_parse_arguments"}, {"k": "option", "doc": 0}, {"k": "generic", "doc": 1}]
    if st:
        out.append({"k": "close"})
        if st[-1][0] == "cpp_class":
            out.append({"k": "close", "doc": 1})     # a doccomment directly before cpp_end_class()
    return out


def occupancy(events):
    """per open class: which member groups already have an element"""
    st = []
    occ = {}
    for i, ev in enumerate(events):
        k = ev["k"]
        if k in cmakegen.OPENERS:
            cls = next((j for kk, j in reversed(st) if kk == "cpp_class"), None)
            if cls is not None:
                g = {"cpp_member": 1, "cpp_constructor": 0, "cpp_class": 3}.get(k)
                if g is not None:
                    occ[cls][g] = min(occ[cls][g] + 1, 2 if g in (0, 1) else 1)     # members/ctors: 0, 1, 2+
            st.append((k, i))
            if k == "cpp_class":
                occ[i] = [0, 0, 0, 0]
        elif k == "close":
            st.pop()
        elif k == "cpp_attr":
            cls = next((j for kk, j in reversed(st) if kk == "cpp_class"), None)
            if cls is not None:
                occ[cls][2] = 1
    return tuple(tuple(occ[j]) for kk, j in st if kk == "cpp_class")


def member_pattern(events):
    """order abstraction of the members declared so far in the innermost open class: one letter per member (R = the
    overloadable fixed name, O = any other), consecutive repeats collapsed, last three kept - 'R O R' must not be merged
    with 'O R R'"""
    st, pats = [], {}
    for i, ev in enumerate(events):
        k = ev["k"]
        if k in cmakegen.OPENERS:
            cls = next((j for kk, j in reversed(st) if kk == "cpp_class"), None)
            if cls is not None and k in ("cpp_member", "cpp_constructor"):
                sym = "R" if "name" in ev else "O"
                if not pats[cls] or pats[cls][-1] != sym:
                    pats[cls] = (pats[cls] + sym)[-3:]
            st.append((k, i))
            if k == "cpp_class":
                pats[i] = ""
        elif k == "close":
            st.pop()
    return tuple(pats[j] for kk, j in st if kk == "cpp_class")


ONLY = None


def check(events, case):
    msgs, dgs, nt = [], [], False
    for cfg in CONFIGS:
        m, dg, n = modsearch.check_module(events, cfg, case)
        if m and not msgs:
            msgs = [f"{x}   [config {cfg}]" for x in m]
        dgs.append(dg)
    from .. import refmodel
    exp = refmodel.expected(events)
    nt = any(e["kind"] == "class" and (e["ctors"] or e["methods"] or e["attrs"] or e["inner"]) for e in exp)
    return msgs, common.digest(dgs), nt


def _transition(h2, depth, case):
    msgs, dg, nt = check(h2, case)
    return msgs, dg, nt, (modsearch.impl_key(h2, case) if len(h2) < depth else None)


def expand(history, maxnest, depth, case):
    out = []
    for ev in enabled(history, maxnest):
        h2 = history + [ev]
        msgs, dg, nt, impl = _transition(h2, depth, case)
        key = None
        if len(h2) < depth:
            key = (statespace.model_key(h2), occupancy(h2), member_pattern(h2), impl)
        r = modsearch.result(ev, key, msgs, dg, nt)
        r["n"] = len(CONFIGS)
        out.append(r)
    return out


SHAPES = [
    {"k": "cpp_member", "doc": 1, "types": [], "params": ["key", "value"]},            # fewer declared types than names
    {"k": "cpp_member", "doc": 0, "types": ["int"], "params": ["a", "b", "c"]},
    {"k": "cpp_constructor", "doc": 1, "types": [], "params": ["size"]},
    {"k": "cpp_member", "doc": 1, "types": ["int", "str"], "params": ["a"]},           # more declared types than names
    {"k": "cpp_member", "doc": 1, "types": ["int"], "params": ["args"]},               # a parameter that is called 'args'
    {"k": "cpp_member", "doc": 1, "types": ["int", "str"], "params": ["a", "b"], "declgap": ""},
    {"k": "cpp_member", "doc": 0, "types": ["int"], "params": ["a"], "declgap": "\n"},
    {"k": "cpp_member", "doc": 1, "types": ["int"], "params": ["a"], "declgap": "# the implementation follows", "impl": "macro"},
    {"k": "cpp_constructor", "doc": 1, "types": ["int"], "params": ["x"], "declgap": "#[[ bracket ]]"},
    {"k": "cpp_constructor", "doc": 0, "types": ["int", "args"], "params": ["x"], "declgap": "# one\n\n# two"},
    # the doc text talks about what the generated parts are called
    {"k": "cpp_member", "doc": 1, "impl": "macro", "types": ["int"], "params": ["a"],
     "doctext": ["Registers a user-defined macro for later.", "", "A note: this is not a function."]},
    {"k": "cpp_constructor", "doc": 1, "impl": "macro", "types": [], "params": [], "doctext": ["Macro constructor, see the macro note."]},
    {"k": "cpp_member", "doc": 1, "types": ["int"], "params": ["a"], "doctext": ["Not a macro although it says macro."]},
    # the definition names a parameter at the position of the variadic marker 'args': it is paired like any other
    {"k": "cpp_member", "doc": 1, "types": ["str", "args"], "params": ["fmt", "values"]},
    {"k": "cpp_member", "doc": 0, "types": ["str", "args"], "params": ["fmt", "values", "more"]},
    {"k": "cpp_constructor", "doc": 1, "types": ["args"], "params": ["rest"], "impl": "macro"},
    {"k": "cpp_member", "doc": 1, "types": ["args", "int"], "params": ["first", "n"]},
    # declared types, but the definition names no parameter (it reads ARGV/ARGN)
    {"k": "cpp_member", "doc": 1, "types": ["int", "args"], "params": []},
    {"k": "cpp_member", "doc": 0, "types": ["str", "bool"], "params": []},
    {"k": "cpp_constructor", "doc": 1, "types": ["path", "int"], "params": [], "impl": "macro"},
    # the doc text describes a parameter (':param x:') without stating its type: the declared type is still generated
    {"k": "cpp_member", "doc": 1, "types": ["int", "str"], "params": ["row", "col"], "doctext": ["Fills.", "", ":param row: the row"]},
    {"k": "cpp_constructor", "doc": 1, "types": ["bool"], "params": ["deep"], "doctext": [":param deep: copy deeply", ":returns: nothing"]},
    {"k": "cpp_member", "doc": 1, "types": ["int", "str"], "params": ["row", "col"], "doctext": [":type col: text", ":param col: only the second"]},
]
ATTR_SHAPES = [      # (class name, attribute name, default): defaults spelled like the attribute or like a class
    ("Channel", "level", "level"), ("Channel", "kind", "Channel"), ("Channel", "other", "Base"), ("Channel", "Channel", "v"),
    ("Channel", "same", "same"),
]


def shape_jobs():
    """member/constructor declarations whose shape the BFS alphabet has one spelling of, in five class contexts"""
    c0, c1, m0, at = CLASSES[0], CLASSES[1], MEMBERS[1], ATTRS[1]
    jobs = []
    for sh in SHAPES:
        cl = {"k": "close"}
        for ctx_ in ([c1, sh], [c0, m0, cl, sh], [c1, sh, cl, m0], [c1, c0, sh], [c0, at, sh, cl, at],
                     [c1, sh, {"k": "cmake_parse_arguments"}, cl, dict(sh, doc=1 - sh["doc"])]):
            jobs.append([dict(e) for e in ctx_])
    # two outer classes that each define an identical helper class of the same name (and identical twins side by side)
    node = [{"k": "cpp_class", "doc": 1, "name": "Node", "doctext": ["A node."]}, {"k": "cpp_attr", "doc": 1, "name": "next", "default": "NULL", "doctext": ["Link."]},
            {"k": "cpp_member", "doc": 1, "name": "get", "types": ["desc"], "params": ["out"], "doctext": ["Getter."]}, {"k": "close"}, {"k": "close"}]
    for outer_doc in (1, 0):
        jobs.append([{"k": "cpp_class", "doc": outer_doc, "name": "ForwardList"}] + [dict(e) for e in node] + [{"k": "close"},
                    {"k": "cpp_class", "doc": outer_doc, "name": "Queue"}] + [dict(e) for e in node])
        jobs.append([dict(e) for e in node] + [dict(e) for e in node])
        jobs.append([{"k": "cpp_class", "doc": outer_doc, "name": "Twice"}] + [dict(e) for e in node] + [dict(e) for e in node])
    # a class nested (directly, or two levels down) inside a still-open class of the SAME name; after it is closed the
    # outer class goes on declaring attributes, members and constructors
    cl = {"k": "close"}
    for doc in (1, 0):
        for mid in ([], [{"k": "cpp_class", "doc": 1, "name": "Section"}]):
            outer = {"k": "cpp_class", "doc": 1, "name": "Config", "doctext": ["Outer config."]}
            inner = {"k": "cpp_class", "doc": doc, "name": "Config", "doctext": ["Inner config."]}
            a = lambda n: {"k": "cpp_attr", "doc": doc, "name": n, "default": "d_" + n}
            m = lambda n: {"k": "cpp_member", "doc": doc, "name": n, "types": ["int"], "params": ["a"]}
            jobs.append([dict(outer), a("before")] + [dict(e) for e in mid] + [dict(inner), a("inside"), m("in_get"), cl, cl]
                        + ([a("mid_attr"), cl] if mid else []) + [a("after"), m("after_get"), cl,
                           {"k": "cpp_constructor", "doc": doc, "types": ["int"], "params": ["x"]}])
            jobs.append([dict(outer)] + [dict(e) for e in mid] + [dict(inner), cl] + ([cl] if mid else []) + [a("after"), m("after_get")])
    for cn, an, dv in ATTR_SHAPES:
        for doc in (1, 0):
            cls = {"k": "cpp_class", "doc": 1, "name": cn, "bases": ["Base"]}
            at = {"k": "cpp_attr", "doc": doc, "name": an, "default": dv}
            jobs.append([cls, dict(at)])
            jobs.append([cls, dict(ATTRS[1]), dict(at), dict(ATTRS[0])])
            jobs.append([{"k": "cpp_class", "doc": 1}, dict(cls), dict(at), {"k": "close"}, dict(ATTRS[1])])
    return jobs


def sweep_shape(h, case):
    msgs, dg, nt = check(h, case)
    return {"viol": msgs, "obs": dg, "nt": dg if nt else None, "n": len(CONFIGS), "cls": msgs[0].split(":")[0] if msgs else None}


def run(ctx):
    quick = ctx.tier == "quick"
    maxnest, depth = (3, 6) if quick else (4, 8)
    case = common.rot(["lower", "upper", "mixed"], ctx.seed + 1)[0]
    ctx.cov["bounds"] = {"max_nesting": maxnest, "max_history": depth, "configs": CONFIGS, "command_case": case,
                         "alphabet_inside_class": len(enabled([CLASSES[0]], maxnest))}
    ctx.bfs(functools.partial(expand, maxnest=maxnest, depth=depth, case=case),
            (statespace.model_key([]), (), None), depth, space="bfs")
    for cs in ("lower", "upper", "mixed"):
        ctx.sweep(functools.partial(sweep_shape, case=cs), shape_jobs(), space=f"declaration shapes x class contexts, {cs} case",
                  selftest=2)
    return RULE


def replay(case):
    events = case if isinstance(case, list) else case["events"]
    for cs in ("lower", "upper", "mixed"):
        m = check(events, cs)[0]
        if m:
            return m
    return []
