"""C12 - title and module name derive from prefix and relative path, or @module."""
import functools
import itertools
import os

from .. import common, fsbox, rstobs, cmakegen

ID = "C12"
RULE = ("full product of input spelling (directory: absolute, relative, trailing slash, ./in, '.' from inside, via parent; "
        "lone file: absolute, relative, nested) x prefix source (none, -p, config file, both) x separator ('.', '/', "
        "'::', '-') x both extension flags on a tree with files at depth 0-3 (names with dots and dashes); header lists "
        "x paths; and the product of module doccomment (none, @module, @module name, @module a.b-c) x body (0-2 lines) x "
        "indent (0, 2, 6, 8 columns, tab) x next command (documented, undocumented, none).  Every run is the real "
        "cminx.main in a fresh sandbox; oracle = frame/first-header-char/one-module-first rules and the path derivation "
        "of the statement (separator-tolerant), equality across spellings, pairwise difference across files.  "
        "non-trivial = every generated page; distinct by (configuration, file)")

FILES = ["a.cmake", "d1/b.cmake", "d1/d2/c.cmake", "d1/d2/d3/x.y-z.cmake", "mods.cmake.d/arm.cmake",
         "d1/conf.cmake.in.cmake", ".hidden.cmake", "hidden.cmake", "-dash.cmake", "dash.cmake",
         "d1/データ.cmake", "cafe\u0301.cmake",      # East Asian wide characters, a combining mark
         "trail_.cmake", "_lead_.cmake", "d1/st*r|p`q.cmake",     # characters that are reST inline markup
         "d1/Up.CMake", "d1/up.cmake",       # a mixed-case extension is not '.cmake': it stays in the name (next to its lower-case twin)
         "d1/d2/index.cmake",
         "d1/win\\paths.cmake", "d1/win/paths.cmake"]      # a backslash is an ordinary character of a POSIX file name               # its page takes the place of the directory index (K4); it is a module page all the same
SEPS = [".", "/", "::", "-"]


def tree():
    # (the content mentions the file's name: a backslash there would be an invalid escape sequence in CMake)
    return {"in/" + f: fsbox.cmake_content(f.replace("\\", "-bs-")) for f in FILES}


def norm(s, sep):
    return s.replace(sep, "\0").replace("/", "\0")


def derive_ok(t, prefix, sep, rel_components, keep_ext):
    comps = list(rel_components)
    if not keep_ext and comps[-1].endswith(".cmake"):
        comps[-1] = comps[-1][:-len(".cmake")]
    if prefix is not None:
        if not t.startswith(prefix + sep):
            return False
        rest = t[len(prefix + sep):]
    else:
        rest = t
    return norm(rest, sep) == norm("\0".join(comps), sep)


def page_facts(text):
    """(messages about the frame/module rule, title, module name, page)"""
    msgs = []
    page = rstobs.Page(text)
    fr = page.frame
    title = None
    if len(fr) != 3 or fr[0] != fr[2] or len(set(fr[0])) != 1 or len(fr[0]) != len(fr[1]):
        msgs.append(f"frame: page does not start with a title framed by equal lines of its length: {fr}")
    else:
        title = fr[1]
    mods = page.module()
    if len(mods) != 1 or not page.blocks or page.blocks[0].name != "module":
        msgs.append(f"module: expected exactly one module directive before any entry: {[b.name for b in page.blocks][:4]}")
        return msgs, title, None, page
    return msgs, title, mods[0].arg, page


def settings_yaml(sep, ext_t, ext_m, headers=None, prefix=None):
    y = "rst:\n"
    y += f"  module_path_separator: '{sep}'\n  file_extensions_in_titles: {str(ext_t).lower()}\n"
    y += f"  file_extensions_in_modules: {str(ext_m).lower()}\n"
    if headers:
        y += "  headers: [" + ", ".join(f"'{h}'" for h in headers) + "]\n"
    if prefix:
        y += f"  prefix: {prefix}\n"
    return y


DIR_SPELLINGS = [("abs", "{root}/work/in", "work"), ("rel", "in", "work"), ("slash", "in/", "work"),
                 ("dot-slash", "./in", "work"), ("dot", ".", "work/in"), ("parent", "../work/in", "work"),
                 ("abs-slash", "{root}/work/in/", "home"),
                 # the input directory reached through a symbolic link: it is named as it was given
                 ("symlink", "{root}/work/linkdir", "work"), ("symlink-rel", "linkdir/", "work"),
                 # directory names with dots (a version number, a dotted package name)
                 ("symlink-dots", "{root}/work/acme.core-3.25", "work"), ("symlink-dots-rel", "acme.core-3.25/", "work")]
FILE_SPELLINGS = [("abs", "{root}/work/in/{f}", "work"), ("rel", "in/{f}", "work"), ("from-dir", "{b}", "work/in/{d}"),
                  ("symlink", "{root}/work/links/{b}", "work")]


def run_config(job):
    """one configuration: all spellings; returns result dict"""
    sep, ext_t, ext_m, pmode, headers = job
    box = fsbox.Box("c12")
    msgs = []
    obs = []
    try:
        box.build(tree())
        os.symlink("in", box.path("work", "linkdir"))
        os.symlink("in", box.path("work", "acme.core-3.25"))
        os.makedirs(box.path("work", "links"))
        for fpath in FILES[:3]:
            # a link with the file's own base name (the base name is what the page is named after)
            os.symlink(os.path.join("..", "in", fpath), box.path("work", "links", os.path.basename(fpath)))
        cfg_prefix = "Q" if pmode in ("cfg", "both") else None
        with open(box.path("work", "s.yaml"), "w") as f:
            f.write(settings_yaml(sep, ext_t, ext_m, headers, cfg_prefix))
        pargs = ["-p", "P"] if pmode in ("cli", "both") else ["-p", "Lib" + sep] if pmode == "cli-sep" else []
        explicit = "P" if pmode in ("cli", "both") else "Lib" + sep if pmode == "cli-sep" else cfg_prefix
        hc = (headers or ["#"])[0]
        seen = {}
        n = 0
        for name, spelling, cwd in DIR_SPELLINGS:
            out = box.path("work", "out-" + name)
            argv = ["-s", box.path("work", "s.yaml"), "-r", "-o", out] + pargs + [spelling.format(root=box.root)]
            r = box.run(argv, cwd=cwd)
            n += 1
            if r["status"] != 0:
                msgs.append(f"error: run failed for directory spelling {name}: {r['exc'] or r['stdout'][-200:]}")
                continue
            pages = box.files(os.path.relpath(out, box.root))
            titles = {}
            for fpath in FILES:
                rst = fpath[:fpath.rindex(".")] + ".rst"
                if rst not in pages:
                    msgs.append(f"missing: no page for {fpath} under spelling {name}")
                    continue
                m, t, mod, _ = page_facts(pages[rst])
                msgs += [f"{x}   [{fpath}, spelling {name}]" for x in m]
                if t is None or mod is None:
                    continue
                if pages[rst].lstrip("\n")[:1] != hc:
                    msgs.append(f"frame: title of {fpath} is not framed with the first configured header character {hc!r}")
                pre = explicit if explicit is not None else ("acme.core-3.25" if name.startswith("symlink-dots") else
                                                              "linkdir" if name.startswith("symlink") else "in")
                if not derive_ok(t, pre, sep, fpath.split("/"), ext_t):
                    msgs.append(f"title: {t!r} for {fpath} is not prefix {pre!r} + separator {sep!r} + relative path "
                                f"(extension kept: {ext_t})   [spelling {name}]")
                if not derive_ok(mod, pre, sep, fpath.split("/"), ext_m):
                    msgs.append(f"module-name: {mod!r} for {fpath} is not prefix {pre!r} + separator {sep!r} + relative "
                                f"path (extension kept: {ext_m})   [spelling {name}]")
                titles[fpath] = (t, mod)
                if name.startswith("symlink") and explicit is None:
                    continue      # named after the link: not comparable with the other spellings
                if fpath in seen and seen[fpath] != (t, mod):
                    msgs.append(f"spelling: {fpath} is titled {(t, mod)} under spelling {name} but {seen[fpath]} under another")
                seen.setdefault(fpath, (t, mod))
            if len(set(titles.values())) != len(titles):
                msgs.append(f"collision: different files share a title/module name: {titles}")
            obs.append(sorted(titles.items()))
        # the same run without -o: the pages printed on standard output carry the same titles and module names
        r = box.run(["-s", box.path("work", "s.yaml"), "-r"] + pargs + ["in"])
        n += 1
        if r["status"] != 0:
            msgs.append(f"error: stdout run failed: {r['exc'] or r['stdout'][-200:]}")
        else:
            import re as _re
            mods = _re.findall(r"^\.\. module:: (.*)$", r["stdout"], _re.M)
            want = sorted(v[1] for v in seen.values())
            if sorted(mods) != want:
                msgs.append(f"stdout-titles: without -o the module names are {sorted(mods)[:6]}..., with -o {want[:6]}...")
        # several inputs in one invocation: every page is titled from its own input, not from an earlier one
        box.build({"second/a.cmake": fsbox.cmake_content("second/a"), "second/d1/b.cmake": fsbox.cmake_content("second/d1/b")})
        out = box.path("work", "out-multi")
        r = box.run(["-s", box.path("work", "s.yaml"), "-r", "-o", out] + pargs + ["in", "second", "in/d1/b.cmake"])
        n += 1
        if r["status"] != 0:
            msgs.append(f"error: run with several inputs failed: {r['exc'] or r['stdout'][-200:]}")
        else:
            # the last writer of a path wins: second/ overwrites in/'s a.rst and d1/b.rst, the lone file d1/b.cmake -> b.rst
            pages = box.files(os.path.relpath(out, box.root))
            checks = [("a.rst", explicit if explicit is not None else "second", ["a.cmake"]),
                      ("d1/b.rst", explicit if explicit is not None else "second", ["d1", "b.cmake"]),
                      ("d1/d2/c.rst", explicit if explicit is not None else "in", ["d1", "d2", "c.cmake"]),
                      ("b.rst", explicit, ["b.cmake"])]
            for rst, pre, comps in checks:
                if rst not in pages:
                    msgs.append(f"missing: no page {rst} in a run with several inputs")
                    continue
                m, t, mod, _ = page_facts(pages[rst])
                if t is None or mod is None:
                    msgs += m
                elif not derive_ok(t, pre, sep, comps, ext_t) or not derive_ok(mod, pre, sep, comps, ext_m):
                    msgs.append(f"multi-input: page {rst} of a run with inputs [in, second, in/d1/b.cmake] is titled "
                                f"{t!r} / module {mod!r}, expected prefix {pre!r} + its own relative path")
        # lone files
        for fpath in FILES[:3]:
            fseen = None
            for name, spelling, cwd in FILE_SPELLINGS:
                d, b = os.path.dirname(fpath), os.path.basename(fpath)
                out = box.path("work", f"outf-{name}-{b}")
                argv = ["-s", box.path("work", "s.yaml"), "-o", out] + pargs + \
                       [spelling.format(root=box.root, f=fpath, b=b, d=d)]
                r = box.run(argv, cwd=cwd.format(d=d))
                n += 1
                if r["status"] != 0:
                    msgs.append(f"error: run failed for lone file spelling {name}: {r['exc'] or r['stdout'][-200:]}")
                    continue
                pages = box.files(os.path.relpath(out, box.root))
                rst = b[:-len(".cmake")] + ".rst"
                if list(pages) != [rst]:
                    msgs.append(f"files: lone file {fpath} produced {sorted(pages)}")
                    continue
                m, t, mod, _ = page_facts(pages[rst])
                msgs += [f"{x}   [lone {fpath}, spelling {name}]" for x in m]
                if t is None or mod is None:
                    continue
                if not derive_ok(t, explicit, sep, [b], ext_t):
                    msgs.append(f"lone-title: {t!r} for lone file {fpath} is not derived from its base name "
                                f"(prefix {explicit!r}, separator {sep!r})   [spelling {name}]")
                if not derive_ok(mod, explicit, sep, [b], ext_m):
                    msgs.append(f"lone-module-name: {mod!r} for lone file {fpath} is not derived from its base name "
                                f"(prefix {explicit!r}, separator {sep!r})   [spelling {name}]")
                if fseen is not None and fseen != (t, mod):
                    msgs.append(f"spelling: lone file {fpath} is titled {(t, mod)} under spelling {name} but {fseen} under another")
                fseen = fseen or (t, mod)
            obs.append((fpath, fseen))
    finally:
        box.cleanup()
    msgs = [m.replace(box.root, "<box>") for m in msgs]
    obs = repr(obs).replace(box.root, "<box>")
    return {"viol": msgs[:8], "obs": common.digest(obs), "nt": common.digest(job), "n": n,
            "cls": msgs[0].split(":")[0] if msgs else None}


# ---------------------------------------------------------------- module doccomments

MOD_NAMES = [None, "", "nm", "a.b-c", "tool/arm.cmake", "工具.helpers", "_detail_", "proj_*|`x`"]
MOD_BODIES = [[], ["Module body one."], ["Module body one.", "  indented second"]]
MOD_INDENTS = ["", "  ", "      ", "        ", "\t", "GAP2", "GAPTAB"]   # the last two: '#[[[  @module', '#[[[<TAB>@module' 
MOD_NEXT = ["documented", "undocumented", "none"]


def module_file(name, body, indent, nxt, i):
    evs = []
    if name is not None:
        evs.append({"k": "module", "name": name, "doctext": [f"{l} #{i}" if l else l for l in body]})
    if nxt == "documented":
        evs.append({"k": "function", "doc": 1, "doctext": [f"Doc of the next command #{i}."], "name": f"next_{i}"})
    elif nxt == "undocumented":
        evs.append({"k": "function", "doc": 0, "name": f"next_{i}"})
    lay = {"doc_indent": indent, "head": indent}
    if indent in ("GAP2", "GAPTAB"):
        lay = {"module_gap": "  " if indent == "GAP2" else "\t"}
    return cmakegen.render(cmakegen.items(cmakegen.close(evs)), lay)


def run_modules(job):
    sep, pmode = job[:2]
    ext_t, ext_m = (job[2], job[3]) if len(job) > 2 else (False, False)
    headers = list(job[4]) if len(job) > 4 and job[4] else None
    box = fsbox.Box("c12m")
    msgs, n = [], 0
    combos = list(itertools.product(MOD_NAMES, range(len(MOD_BODIES)), MOD_INDENTS, MOD_NEXT))
    try:
        spec = {}
        for i, (name, bi, ind, nxt) in enumerate(combos):
            spec[f"in/m{i}.cmake"] = module_file(name, MOD_BODIES[bi], ind, nxt, i)
        box.build(spec)
        with open(box.path("work", "s.yaml"), "w") as f:
            f.write(settings_yaml(sep, ext_t, ext_m, headers))
        pargs = ["-p", "P"] if pmode == "cli" else []
        r = box.run(["-s", box.path("work", "s.yaml"), "-o", box.path("work", "out")] + pargs + ["in"])
        n = len(combos)
        if r["status"] != 0:
            return {"viol": [f"error: run failed: {r['exc'] or r['stdout'][-300:]}"], "obs": None, "nt": None, "n": 1,
                    "cls": "error"}
        pages = box.files("work/out")
        pre = "P" if pmode == "cli" else "in"
        for i, (name, bi, ind, nxt) in enumerate(combos):
            what = f"[@module {name!r}, body {bi}, indent {ind!r}, next {nxt}]"
            text = pages.get(f"m{i}.rst")
            if text is None:
                msgs.append(f"missing: no page for m{i}.cmake {what}")
                continue
            m, t, mod, page = page_facts(text)
            msgs += [f"{x}   {what}" for x in m]
            if t is None or mod is None:
                continue
            hc = (headers or ["#"])[0]
            if set(page.frame[0]) != {hc}:
                msgs.append(f"frame: title is framed with {page.frame[0][:1]!r}, the first configured header character is {hc!r}   {what}")
            if name:
                if t != name or mod != name:
                    msgs.append(f"module-doccomment-name: title {t!r} / module name {mod!r}, expected both {name!r}   {what}")
            else:
                if not derive_ok(t, pre, sep, [f"m{i}.cmake"], ext_t) or not derive_ok(mod, pre, sep, [f"m{i}.cmake"], ext_m):
                    msgs.append(f"title: {t!r}/{mod!r} not derived from prefix and path (extension in title {ext_t}, "
                                f"in module name {ext_m})   {what}")
            body = [f"{l} #{i}" if l else l for l in MOD_BODIES[bi]] if name is not None else []
            mb = page.module()[0]
            own = mb.own_text()
            if body:
                from .C01 import run_matches
                if not run_matches(own, body):
                    msgs.append(f"module-doc: module doccomment text is not the module directive's content: {own!r}   {what}")
                for b in page.entries():
                    if any(l.strip() and l.strip() in b.all_text() for l in body):
                        msgs.append(f"module-doc-leak: module doccomment text attached to entry {b.arg!r}   {what}")
            ents = page.entries()
            if nxt == "none" and ents:
                msgs.append(f"entries: unexpected entries {ents}   {what}")
            if nxt != "none":
                if len(ents) != 1 or not ents[0].arg.startswith(f"next_{i}("):
                    msgs.append(f"entries: expected one entry next_{i}, got {ents}   {what}")
                elif nxt == "documented" and f"Doc of the next command #{i}." not in ents[0].own_text():
                    msgs.append(f"next-doc: the next command lost its own doccomment   {what}")
                elif nxt == "undocumented" and any(l.strip() for l in ents[0].own_text()):
                    msgs.append(f"next-doc: an undocumented next command received text {ents[0].own_text()}   {what}")
    finally:
        box.cleanup()
    msgs = [m.replace(box.root, "<box>") for m in msgs]
    return {"viol": msgs[:8], "obs": common.digest(repr(sorted(pages.items())).replace(box.root, "<box>")),
            "nt": common.digest(job), "n": n,
            "cls": msgs[0].split(":")[0] if msgs else None}


def run(ctx):
    quick = ctx.tier == "quick"
    jobs = []
    for sep in SEPS:
        for et, em in itertools.product((False, True), repeat=2):
            for pmode in ("none", "cli", "cfg", "both"):
                jobs.append((sep, et, em, pmode, None))
        jobs.append((sep, False, False, "cli-sep", None))     # a prefix that itself ends with the separator
    # (a letter and a non-ASCII box character as first entry: "the first configured header character", whatever it is)
    for headers in (["^", "*"], ["="], ["\u2550", "="], ["o", "-"]):
        for sep in (SEPS[:2] if quick else SEPS):
            jobs.append((sep, False, True, "none", headers))
    ctx.sweep(run_config, jobs, space="spellings x prefix x separator x extension flags x headers", selftest=2, chunk=1)
    mjobs = [(sep, pm, et, em) for sep in (SEPS[:2] if quick else SEPS) for pm in ("none", "cli")
             for et, em in ((False, False), (True, False), (False, True))]
    mjobs += [(sep, "none", False, False, hdr) for sep in SEPS[:2] for hdr in (("=", "-", "~"), ("^", "*"), ("\u2550", "="), ("o", "-"))]
    ctx.sweep(run_modules, mjobs, space="module doccomments", selftest=1, chunk=1)
    ctx.cov["bounds"] = {"files": FILES, "separators": SEPS, "dir_spellings": [s[0] for s in DIR_SPELLINGS],
                         "file_spellings": [s[0] for s in FILE_SPELLINGS], "module_variants": len(MOD_NAMES) * 3 * 7 * 3}
    ctx.assumptions += ["path components may be joined by the OS separator or by the configured separator (both accepted)",
                        "a lone input file has a prefix only when one is configured explicitly"]
    return RULE


def replay(case):
    if len(case) in (2, 4) or (len(case) == 5 and isinstance(case[1], str) and case[1] in ("none", "cli")):
        return run_modules(tuple(case))["viol"]
    return run_config(tuple(case))["viol"]
