"""C18 - pages go only where requested: the output directory, or stdout (snapshot invariant, twin runs)."""
import itertools
import os

from .. import common, fsbox, dirmodel
from ..dirmodel import Tree
from .C13 import assignments

ID = "C18"
RULE = ("trees (every shape with <=3/4 directories x content assignments with <=1 varied directory) and lone files x "
        "output location (absolute outside, relative to cwd, nested in the input tree, parent of the input tree, "
        "pre-populated with foreign files and a stale page) x settings that affect page content (prefix, extension "
        "flags, include_undocumented_* all-off, header list) x recursive; each invocation is run twice in fresh "
        "sandboxes: with -o (snapshot of the whole sandbox before/after: changes confined to the output directory, "
        "foreign files byte- and mtime-identical) and without (no file system change at all; stdout must be exactly the "
        "pages the -o twin wrote, files of a directory in sorted order, each followed by the same newline-only "
        "separator, no index pages).  non-trivial = >=2 pages; distinct by (tree, output mode, settings)")

SETTINGS = {
    "default": "",
    "prefix+ext": "rst:\n  prefix: Pfx\n  file_extensions_in_titles: true\n  file_extensions_in_modules: true\n",
    "all-off": "input:\n" + "".join(f"  include_undocumented_{k}: false\n" for k in
                                    ("function", "macro", "cpp_class", "cpp_attr", "cpp_constructor", "cpp_member",
                                     "ct_add_test", "add_test", "ct_add_section", "option")),
    "headers": "rst:\n  headers: ['=', '-', '~']\n  module_path_separator: '/'\n",
}
OUTMODES = ["abs", "rel", "nested", "parent", "prepop", "abs+symlink", "rel+symlink"]


def diff(before, after):
    ch = {}
    for k in set(before) | set(after):
        if before.get(k) != after.get(k):
            ch[k] = (before.get(k), after.get(k))
    return ch


def run_case(job):
    kind, parents, contents, recursive, outmode, sname = job
    msgs = []
    npages = 0
    box = fsbox.Box("c18")
    box2 = fsbox.Box("c18b")
    try:
        for b in (box, box2):
            if kind == "prefixdirs":
                b.build({"proj/in/a.cmake": fsbox.cmake_content("a.cmake"), "proj/in/api_helpers/h.cmake": fsbox.cmake_content("h.cmake"),
                         "proj/in/apix/x.cmake": fsbox.cmake_content("x.cmake"), "proj/in/zeta/z.cmake": fsbox.cmake_content("z.cmake")})
            elif kind == "warn":
                # inputs that make CMinx log warnings/errors but are documented all the same (a doccomment in front of a
                # commented-out function, a declaration with too few arguments)
                b.build({"proj/in/a.cmake": "#[[[\n# Doc of something that is commented out.\n#]]\n# function(gone)\n# endfunction()\n\n"
                                            + fsbox.cmake_content("a.cmake") + "\ncpp_attr(only_one)\nct_add_test(EXPECTFAIL)\nfunction(${x})\nendfunction()\n",
                         "proj/in/sub/b.cmake": fsbox.cmake_content("b.cmake") + "\n#[[[\n# Dangling at the end.\n#]]\n"})
            elif kind == "tree":
                tree = Tree(parents, contents)
                b.build(tree.spec("proj/in"))
            elif kind == "quiet":
                # modules in which nothing is documented (plain commands only, empty, comments only) next to an ordinary one
                b.build({"proj/in/versions.cmake": "set(V_MAJOR 1)\nset(V_MINOR 2)\nmessage(STATUS \"v\")\n", "proj/in/empty.cmake": "",
                         "proj/in/comments.cmake": "# only a comment\n#[[ and a bracket comment ]]\n", "proj/in/a.cmake": fsbox.cmake_content("a.cmake"),
                         "proj/in/sub/plain.cmake": "include(other)\n", "proj/in/sub/b.cmake": fsbox.cmake_content("b.cmake")})
            elif kind == "filelink":
                # symbolic links to CMake files (same directory, other directory) next to ordinary modules
                b.build({"proj/in/find_zlib.cmake": fsbox.cmake_content("find_zlib"), "proj/in/a.cmake": fsbox.cmake_content("a.cmake"),
                         "proj/in/sub/b.cmake": fsbox.cmake_content("b.cmake"), "proj/shared/impl.cmake": fsbox.cmake_content("impl")})
                os.symlink("find_zlib.cmake", b.path("work", "proj", "in", "FindZLIB.cmake"))
                os.symlink(os.path.join("..", "..", "shared", "impl.cmake"), b.path("work", "proj", "in", "sub", "Impl.cmake"))
            elif kind == "many":
                # nine modules in one directory, the first one (in sorted order) by far the largest
                big = "".join(f"#[[[\n# Function {n}.\n#]]\nfunction(big_fn_{n} a b)\nendfunction()\n" for n in range(150))
                b.build({"proj/in/a00_big.cmake": big, **{f"proj/in/m{n:02d}.cmake": fsbox.cmake_content(f"m{n}") for n in range(1, 9)},
                         "proj/in/sub/z.cmake": fsbox.cmake_content("z")})
            elif kind == "quietfile":
                b.build({"proj/in/lone.cmake": "set(ONLY_PLAIN 1)\n", "proj/in/other.cmake": fsbox.cmake_content("other")})
            else:
                b.build({"proj/in/lone.cmake": fsbox.cmake_content("lone"), "proj/in/other.cmake": fsbox.cmake_content("other")})
            b.build({"proj/readme.txt": "outside the input\n", "../home/dot.txt": "home\n"})
            with open(b.path("work", "s.yaml"), "w") as f:
                f.write(SETTINGS[sname] or "{}\n")
        inp = "proj/in" if kind in ("tree", "prefixdirs", "warn", "quiet", "filelink", "many") else "proj/in/lone.cmake"
        if outmode.endswith("+symlink"):
            # the input is reached through a symbolic link to its directory
            for b in (box, box2):
                os.symlink(os.path.join("proj", "in"), b.path("work", "lnk"))
            inp = "lnk" if kind in ("tree", "prefixdirs", "warn", "quiet", "filelink", "many") else "lnk/lone.cmake"
            outmode = outmode[:-len("+symlink")]
        out = {"abs": box.path("outside", "o"), "rel": "o/p", "nested": "proj/in/_docs", "parent": "proj",
               "prepop": "o", "nested-prefix": "proj/in/api", "rel-blank": "api ", "rel-blank-lead": " generated",
               "abs-blank": box.path("outside", "reference manual ")}[outmode]
        if "blank" in outmode:       # the sibling without the blank exists and holds hand-written pages
            for b in (box, box2):
                b.build({"api/index.rst": "hand-written\n", "api/a.rst": "hand-written page\n", "generated/keep.txt": "keep\n"})
        foreign = {}
        if outmode == "prepop":
            foreign = {"o/foreign.txt": "keep me\n", "o/notes/keep.rst": "unrelated page\n", "o/a.rst": "stale page that is longer than anything generated " * 40 + "\n",
                       "o/overview.rst": "hand-written page next to the generated ones\n", "o/conf.py": "# sphinx\n"}
            if kind in ("file", "quietfile"):
                # a lone file does not get an index: a hand-written one (or one left by an earlier run) stays as it is
                foreign["o/index.rst"] = "Hand-written root page\n======================\n\n.. toctree::\n\n   overview\n"
            if kind == "tree" and len(parents) > 1:
                # ... and in a directory that mirrors an input sub-directory
                foreign[f"o/{tree.rel(1)}/usage.rst"] = "hand-written page in a mirrored directory\n"
                foreign[f"o/{tree.rel(1)}/_static/x.css"] = "css\n"
            box.build(foreign)
        outrel = os.path.relpath(out if os.path.isabs(out) else box.path("work", out), box.root)
        before = box.snapshot()
        argv = ["-s", "s.yaml"] + (["-r"] if recursive else [])
        # the temporary directory is an input of the run, too: an empty one on ANOTHER file system than the sandbox
        import tempfile
        other_fs = "/tmp" if box.root.startswith("/dev/shm") else ("/dev/shm" if os.path.isdir("/dev/shm") else None)
        try:
            tmpd = tempfile.mkdtemp(prefix="c18tmp-", dir=other_fs) if other_fs else None
        except OSError:
            tmpd = None
        r1 = box.run(argv + ["-o", out, inp], env={"TMPDIR": tmpd} if tmpd else None)
        after = box.snapshot()
        if tmpd:
            left = sorted(os.listdir(tmpd))
            import shutil as _sh
            _sh.rmtree(tmpd, ignore_errors=True)
            if left:
                msgs.append(f"outside: the run left {len(left)} file(s) with suffix {sorted({os.path.splitext(x)[1] for x in left})} in the "
                            f"temporary directory (which is on another file system than the output directory)")
        if r1["status"] != 0:
            msgs.append(f"error: run with -o failed: {r1['exc'] or r1['stdout'][-200:]}")
        ch = diff(before, after)
        outside = sorted(k for k in ch if not (k == outrel or k.startswith(outrel + "/") or outrel.startswith(k + "/")))
        if outmode == "parent":
            # the output directory contains the input tree: inputs and the unrelated file must be untouched
            outside += sorted(k for k in ch if k.startswith("work/proj/in/") and k.endswith((".cmake", ".txt"))
                              or k == "work/proj/readme.txt")
        if outside:
            msgs.append(f"outside: the run created/changed/deleted paths outside the output directory: {outside[:5]}")
        for k in foreign:
            kk = "work/" + k
            if k != "o/a.rst" and ch.get(kk):
                msgs.append(f"foreign: unrelated file {k} in the output directory was touched: {ch[kk]}")
        pages = {}
        if os.path.isdir(box.path(outrel)):
            allf = box.files(outrel)
            # the pages this run wrote = files created or modified under the output directory
            # (a directory that holds index.cmake: its index.rst is that file's page - known finding K4 - and a page)
            has_index_cmake = {dirmodel._join(tree.rel(i), "index.rst") for i in range(len(parents))
                               if "index.cmake" in tree.files(i)} if kind == "tree" else set()
            pages = {k: v for k, v in allf.items() if k.endswith(".rst") and os.path.join(outrel, k) in ch
                     and (os.path.basename(k) != "index.rst" or k in has_index_cmake)}
        # twin without -o
        before2 = box2.snapshot()
        r2 = box2.run(argv + [inp])
        after2 = box2.snapshot()
        if r2["status"] != 0:
            msgs.append(f"error: run without -o failed: {r2['exc'] or r2['stdout'][-200:]}")
        ch2 = diff(before2, after2)
        if ch2:
            msgs.append(f"stdout-mode-writes: without -o the run changed the file system: {sorted(ch2)[:5]}")
        # stdout = pages in some directory order, files of one directory sorted, one constant newline-only separator
        rest = r2["stdout"].replace(box2.root, box.root)
        todo = dict(pages)
        if kind == "warn":       # diagnostics are printed, too: only the file-system clauses are judged for these inputs
            todo, rest, pages = {}, "", {}
            r2 = dict(r2, stdout="")
        order, seps = [], []
        first = True
        while todo:
            n = len(rest) - len(rest.lstrip("\n"))
            found = None
            for k in range(0, n + 1):        # a page may itself begin with newlines: try every split point
                hit = [p for p, v in todo.items() if rest[k:].startswith(v)]
                if hit:
                    found = (k, max(hit, key=lambda x: len(todo[x])))
                    break
            if not found:
                break
            k, pg = found
            if not first:
                seps.append(rest[:k])
            elif k:
                msgs.append(f"stdout: output starts with {k} extra newline(s) before the first page")
            first = False
            rest = rest[k + len(todo.pop(pg)):]
            order.append(pg)
        if not todo and order:
            seps.append(rest)
            if not rest.strip("\n"):
                rest = ""
        if not pages and r2["stdout"] != "":
            msgs.append(f"stdout: nothing is written with -o but standard output carries {r2['stdout'][:60]!r}")
        if todo or rest.strip():
            msgs.append(f"stdout: standard output is not exactly the pages written with -o: unmatched pages "
                        f"{sorted(todo)[:4]}, leftover text {rest[:120]!r}")
        else:
            if len(set(seps)) > 1 or (seps and not seps[0]):
                msgs.append(f"stdout-separator: pages are not followed by one constant empty-line separator: {seps[:4]}")
            bydir = {}
            for k in order:
                bydir.setdefault(os.path.dirname(k), []).append(os.path.basename(k))
            for d, lst in bydir.items():
                # sorted by the name of the CMake file a page stems from (not by the page's own name)
                src = {}
                if kind == "tree":
                    for i in range(len(parents)):
                        if (tree.rel(i) if tree.rel(i) != "." else "") == d:
                            src = {dirmodel.stem(f) + ".rst": f for f in tree.files(i)}
                srt = sorted(lst, key=lambda pg: src.get(pg, pg))
                if lst != srt:
                    msgs.append(f"stdout-order: pages of directory {d or '.'} are printed as {lst}, not in sorted order")
        npages = len(pages)
    finally:
        box.cleanup()
        box2.cleanup()
    msgs = [m.replace(box.root, "<box>").replace(box2.root, "<box>") for m in msgs]
    return {"viol": msgs[:5], "obs": common.digest([sorted(pages), outmode, sname]), "n": 2,
            "nt": common.digest(job) if npages >= 2 else None, "cls": msgs[0].split(":")[0] if msgs else None}


def run_helper(job):
    """the CMake helper cminx_gen_rst() is a way to run CMinx, too: started in a build directory with an absolute input and a
    relative output directory, everything it creates lies below <build>/<output>"""
    import stat
    import subprocess
    kind = job
    box = fsbox.Box("c18h")
    msgs = []
    try:
        box.build({"proj/cmake/a.cmake": fsbox.cmake_content("a.cmake"), "proj/cmake/sub/b.cmake": fsbox.cmake_content("b.cmake")})
        os.makedirs(box.path("work", "build"))
        wrapper = box.path("cminx-wrapper.sh")
        code = ("import sys; sys.path.insert(0, %r); import warnings; warnings.filterwarnings('ignore'); import cminx; "
                "cminx.main(sys.argv[1:])") % common.REPO_SRC
        with open(wrapper, "w") as f:
            f.write(f"#!/bin/sh\nexec {common.PYTHON} -c \"{code}\" \"$@\"\n")
        os.chmod(wrapper, os.stat(wrapper).st_mode | stat.S_IEXEC)
        inp = box.path("work", "proj", "cmake") if kind == "dir" else box.path("work", "proj", "cmake", "a.cmake")
        with open(box.path("driver.cmake"), "w") as f:
            f.write(f'set(CMINX_EXECUTABLE "{wrapper}")\ninclude("{os.path.join(common.REPO_ROOT, "cmake", "cminx.cmake")}")\n'
                    f'cminx_gen_rst("{inp}" "docs/api")\n')
        env = dict(os.environ, CMINXDIR=box.path("cfg"), HOME=box.path("home"), XDG_CONFIG_HOME=box.path("home", ".config"),
                   PWD=box.path("work", "build"))
        before = box.snapshot()
        p = subprocess.run(["cmake", "-P", box.path("driver.cmake")], cwd=box.path("work", "build"), env=env, capture_output=True, text=True)
        after = box.snapshot()
        ch = diff(before, after)
        ok_prefix = "work/build/docs"
        outside = sorted(k for k in ch if not (k == ok_prefix or k.startswith(ok_prefix + "/")))
        if p.returncode != 0:
            msgs.append(f"error: cmake failed: {p.stderr[-200:]}")
        if outside:
            msgs.append(f"outside: cminx_gen_rst(<absolute input> docs/api) started in build/ created or changed {outside[:5]}")
        if not any(k.endswith("a.rst") and k.startswith(ok_prefix) for k in ch):
            msgs.append("outside: nothing was written below build/docs/api")
    finally:
        box.cleanup()
    msgs = [m.replace(box.root, "<box>") for m in msgs]
    return {"viol": msgs[:3], "obs": common.digest([job, msgs]), "n": 1, "nt": common.digest(job), "cls": msgs[0].split(":")[0] + " helper" if msgs else None,
            "case": {"helper": kind}}


def run(ctx):
    quick = ctx.tier == "quick"
    shapes = dirmodel.shapes(3 if quick else 4, 3)
    jobs = []
    for parents in shapes:
        for a in assignments(len(parents), 1, with_indexfile=True):
            for n, (outmode, sname) in enumerate(itertools.product(OUTMODES, SETTINGS)):
                for recursive in ((True, False) if (outmode == "abs" or not quick) else (True,)):
                    jobs.append(("tree", parents, a, recursive, outmode, sname))
    for outmode, sname in itertools.product(OUTMODES, SETTINGS):
        jobs.append(("file", None, None, False, outmode, sname))
    for recursive in (True, False):
        jobs.append(("many", None, None, recursive, "abs", "default"))
        jobs.append(("many", None, None, recursive, "rel", "prefix+ext"))
    for outmode in ("rel-blank", "rel-blank-lead", "abs-blank"):
        jobs.append(("file", None, None, False, outmode, "default"))
        jobs.append(("quiet", None, None, True, outmode, "default"))
    for outmode in ("abs", "rel", "nested", "prepop"):
        for recursive in (True, False):
            jobs.append(("warn", None, None, recursive, outmode, "default"))
            for kind in ("quiet", "filelink"):
                for sname in ("default", "all-off"):
                    jobs.append((kind, None, None, recursive, outmode, sname))
        for sname in ("default", "all-off"):
            jobs.append(("quietfile", None, None, False, outmode, sname))
    for outmode in ("nested-prefix", "nested", "abs", "rel"):
        for recursive in (True, False):
            jobs.append(("prefixdirs", None, None, recursive, outmode, "default"))
    ctx.cov["bounds"] = {"tree_shapes": len(shapes), "output_modes": OUTMODES, "settings": list(SETTINGS), "twin_runs": len(jobs)}
    ctx.sweep(run_case, jobs, space="(tree|file) x output mode x settings, twin runs", selftest=3)
    ctx.sweep(run_helper, ["dir", "file"], space="cminx_gen_rst() from a build directory", selftest=0, chunk=1)
    ctx.assumptions += ["inputs trigger no diagnostics", "the order in which directories are printed is not fixed by the statement; "
                        "only the order of files within a directory is checked",
                        "a stale page with the name of a generated page is related and may be overwritten"]
    return RULE


def replay(case):
    if isinstance(case, dict) and "helper" in case:
        return run_helper(case["helper"])["viol"]
    return run_case(tuple(case))["viol"]
