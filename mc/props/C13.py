"""C13 - directory mode writes exactly one page per processed CMake file (trees x configurations x listing schedules)."""
import functools
import itertools
import os

from .. import common, fsbox, dirmodel
from ..dirmodel import Tree, CONTENT

ID = "C13"
RULE = ("every rooted directory tree shape with <=4/5 directory nodes and depth <=3 x every assignment of 7 content classes "
        "(empty, non-CMake only, one/two .cmake, mixed-case extension, dotted/dashed names, a file named 'cmake') to <=2 "
        "directories (others hold a.cmake) x recursive x auto-exclusion x prefix, output location variants (absolute, "
        "relative, nested in the input tree, pre-populated) and (thorough) every listing schedule that deviates from "
        "sorted in one directory; each run is the real cminx.main in a fresh sandbox.  Oracle: reference walk written from "
        "the statement; the set of new files under the output directory equals pages+indexes exactly; each page equals "
        "the single-file rendering apart from title/module name.  non-trivial = >=2 processed files; distinct by (tree, "
        "configuration)")


def assignments(n, maxvar, auto_root_ok=True, with_indexfile=False):
    classes = [c for c in CONTENT if c != "indexfile_renamed" and (with_indexfile or c != "indexfile")]
    base = ["one"] * n
    yield list(base)
    for k in range(1, maxvar + 1):
        for nodes in itertools.combinations(range(n), k):
            for cs in itertools.product([c for c in classes if c != "one"], repeat=k):
                a = list(base)
                for i, c in zip(nodes, cs):
                    a[i] = c
                yield a


def run_case(job, ret_files=False):
    parents, contents, recursive, auto, prefix, outmode, sched = job
    tree = Tree(parents, contents)
    if auto and not any(f.endswith(".cmake") for f in tree.files(0)):
        return {"viol": [], "obs": None, "nt": None, "n": 0}     # outside the domain (statement)
    box = fsbox.Box("c13")
    msgs = []
    try:
        box.build(tree.spec("in"))
        child = tree.rel(1) if len(parents) > 1 else "gen"
        out = {"abs": box.path("outside", "out"), "rel": "out", "nested": "in/gen/docs", "nested1": "in/docs", "prepop": "out",
               "nested-in-subdir": f"in/{child}/_rst/deep"}[outmode]
        pre = {}
        if outmode == "prepop":
            pre = {"out/foreign.txt": "keep me\n", "out/old.rst": "stale page\n", "out/keep/x.rst": "x\n"}
            box.build(pre)
        with open(box.path("work", "s.yaml"), "w") as f:
            f.write(f"input:\n  auto_exclude_directories_without_cmake: {str(auto).lower()}\n")
        argv = ["-s", "s.yaml", "-o", out] + (["-r"] if recursive else []) + (["-p", prefix] if prefix else []) + ["in"]
        schedule = None
        if sched:
            schedule = fsbox.Schedule(table={sched[0]: sched[1]}, root=box.path("work", "in"))
        r = box.run(argv, schedule=schedule)
        if r["status"] != 0:
            msgs.append(f"error: run failed: {r['exc'] or r['stdout'][-200:]}")
        else:
            outabs = out if os.path.isabs(out) else box.path("work", out)
            got = box.files(os.path.relpath(outabs, box.root))
            new = {k for k in got if ("out/" + k) not in pre}
            walk = dirmodel.reference_walk(tree, recursive, auto)
            exp = dirmodel.expected_files(walk)
            if new != exp:
                extra, missing = sorted(new - exp), sorted(exp - new)
                msgs.append(f"files: output holds unexpected {extra} and lacks {missing} (tree {tree.describe()})")
            for rel, fs in walk.items():
                for fn in fs:
                    k = dirmodel._join(rel, dirmodel.stem(fn) + ".rst")
                    if k in got:
                        alone = dirmodel.page_alone(fsbox.cmake_content(fn))
                        if dirmodel.strip_identity(got[k]) != alone:
                            msgs.append(f"content: page {k} differs from the single-file rendering of {rel}/{fn}")
            nproc = sum(len(v) for v in walk.values())
    finally:
        box.cleanup()
    msgs = [m.replace(box.root, "<box>") for m in msgs]
    nt = not msgs and nproc >= 2 if r["status"] == 0 else False
    res = {"viol": msgs[:6], "obs": common.digest([sorted(new)]) if r["status"] == 0 else None, "n": 1,
           "nt": common.digest(job) if nt else None, "cls": msgs[0].split(":")[0] if msgs else None}
    if ret_files:
        res["files"] = got if r["status"] == 0 else None
    return res


def jobs_for(tier):
    quick = tier == "quick"
    shapes = dirmodel.shapes(4 if quick else 5, 3)
    jobs = []
    for parents in shapes:
        n = len(parents)
        for a in assignments(n, 2 if (not quick or n <= 3) else 1, with_indexfile=True):
            nvar = sum(1 for c in a if c != "one")
            for recursive, auto, prefix in itertools.product((True, False), (True, False), (None, "P")):
                if not recursive and nvar == 2 and a[0] == "one":
                    continue   # non-recursive runs only look at the root directory
                jobs.append((parents, a, recursive, auto, prefix, "abs", None))
            if nvar <= 1:
                for outmode in ("rel", "nested", "prepop", "nested-in-subdir"):
                    for recursive in (True, False):
                        jobs.append((parents, a, recursive, True, None, outmode, None))
                # an output directory directly inside the input directory that does not exist yet, auto-exclusion off too
                for recursive, auto in itertools.product((True, False), (True, False)):
                    jobs.append((parents, a, recursive, auto, None, "nested1", None))
    if not quick:
        for parents in shapes:
            n = len(parents)
            for a in assignments(n, 1):
                t = Tree(parents, a)
                for i in range(n):
                    names = sorted(t.files(i) + [t.names[j] for j in t.children(i)])
                    if len(names) < 2:
                        continue
                    for order in (names[::-1], names[1:] + names[:1]):
                        jobs.append((parents, a, True, True, None, "abs", (t.rel(i), order)))
    return shapes, jobs


def run(ctx):
    shapes, jobs = jobs_for(ctx.tier)
    ctx.cov["bounds"] = {"tree_shapes": len(shapes), "content_classes": list(CONTENT), "runs": len(jobs)}
    ctx.sweep(run_case, jobs, space="trees x configurations", selftest=5)
    ctx.assumptions += ["with auto-exclusion on, trees whose root holds no .cmake file are outside the domain",
                        "page identity (title frame, module name) is removed before comparing with the single-file rendering"]
    return RULE


def attribute(case, msgs):
    """K4: a processed file named index.cmake - its page and the directory index share one path.  Attributed only if
    the case holds such a file AND passes once exactly those files are renamed."""
    c = list(case)
    if "indexfile" not in c[1]:
        return None
    c[1] = ["indexfile_renamed" if x == "indexfile" else x for x in c[1]]
    if c[6]:
        c[6] = tuple(c[6])
    if run_case(tuple(c))["viol"]:
        return None
    # ... AND the failure has the recorded shape: the module page sits where the directory index belongs
    orig = list(case)
    if orig[6]:
        orig[6] = tuple(orig[6])
    files = run_case(tuple(orig), ret_files=True).get("files")
    return "K4" if files is not None and dirmodel.k4_known_shape(Tree(orig[0], orig[1]), files) else None


def replay(case):
    c = list(case)
    if c[6]:
        c[6] = tuple(c[6])
    return run_case(tuple(c))["viol"]
