"""C15 - exclusion patterns are honoured for every matching path (patterns x trees x every listing order)."""
import fnmatch
import itertools
import os

from .. import common, fsbox, dirmodel

ID = "C15"
RULE = ("trees whose input directory holds every subset (size 2-4) of four sibling files / four sibling directories "
        "(names chosen so that each pattern form matches 0..all of them; sub-directories nested to depth 3) x every "
        "pattern set of size 1 (thorough: <=2) over the forms {bare file name, bare directory name, name/, e*.cmake, "
        "x*/, *.cmake, **/deep/, absolute file path, absolute directory path/, pattern matching the input itself} x the "
        "three pattern sources (-e, -s file, user configuration) x EVERY permutation of the listing of the directory "
        "whose entries match (<=24), plus reversed listings everywhere; real cminx.main in a fresh sandbox.  Oracle: "
        "independent gitignore matcher (validated against pathspec on the whole finite universe at start-up) + reference "
        "walk; generated pages/indexes must equal the expected set exactly, nothing below an excluded directory, no "
        "output at all for an excluded input.  non-trivial = >=1 entry excluded and >=1 processed; distinct by (tree, "
        "patterns, schedule)")

FILES = ["e1.cmake", "e2.cmake", "k.cmake", "e3.CMake"]     # one CMake file with a mixed-case extension
DIRS = ["x1", "x2", "y", "x3"]


class T:
    """root 'in' with chosen files and directories; each directory holds m.cmake; x1 and y hold deep/c.cmake"""

    def __init__(self, files, dirs):
        self.files_, self.dirs_ = list(files), list(dirs)

    def spec(self):
        s = {"in": None}
        for f in self.files_:
            s["in/" + f] = fsbox.cmake_content(f)
        for d in self.dirs_:
            s[f"in/{d}/m.cmake"] = fsbox.cmake_content(d + "/m")
            if d in ("x1", "y"):
                s[f"in/{d}/deep/c.cmake"] = fsbox.cmake_content(d + "/deep/c")
                s[f"in/{d}/deep/e1.cmake"] = fsbox.cmake_content(d + "/deep/e1")
        return s

    def entries(self):
        """all (relpath, isdir) below the input directory"""
        out = []
        for k, v in self.spec().items():
            rel = k[3:] if k.startswith("in/") else None
            if rel is None:
                continue
            if v is not None:
                out.append((rel, False))
                d = os.path.dirname(rel)
                while d:
                    if (d, True) not in out:
                        out.append((d, True))
                    d = os.path.dirname(d)
        return sorted(set(out))


def ref_match(pattern, abspath, isdir):
    """gitignore semantics for the pattern forms used here (abspath without trailing slash)"""
    comps = [c for c in abspath.split("/") if c]
    dironly = pattern.endswith("/")
    pat = pattern.rstrip("/")
    if pat.startswith("**/"):
        pat = pat[3:]
        if "/" in pat:      # '**/a/b': the component sequence a, b at any depth
            pc = pat.split("/")
            for i in range(len(comps) - len(pc) + 1):
                if all(fnmatch.fnmatchcase(c, q) for c, q in zip(comps[i:i + len(pc)], pc)):
                    if i + len(pc) < len(comps) or isdir or not dironly:
                        return True
            return False
    if pat.startswith("/"):
        pc = [c for c in pat.split("/") if c]
        if len(pc) > len(comps):
            return False
        if not all(fnmatch.fnmatchcase(c, p) for c, p in zip(comps, pc)):
            return False
        if len(pc) == len(comps):
            return isdir or not dironly
        return True     # something below the matched path
    if "/" in pat:
        raise common.HarnessFault(f"pattern form not supported by the reference matcher: {pattern}")
    for i, c in enumerate(comps):
        if fnmatch.fnmatchcase(c, pat):
            last = i == len(comps) - 1
            if not dironly or not last or isdir:
                return True
    return False


def pattern_forms():
    return ["k.cmake", "e1.cmake", "y", "x1/", "e*.cmake", "x*/", "*.cmake", "**/deep/", "deep", "ABSF:e2.cmake",
            "ABSF:x1/m.cmake", "ABSD:x2/", "ABSD:y/deep/", "m.cmake", "INPUT/", "in", "ANCESTOR/", "ABSGLOB:i*/k.cmake",
            "ABSGLOB:*/x2/", "in/", "i*/", "**/in/",
            # directory-only patterns that would also match file names; patterns for the mixed-case extension
            "e*/", "k.cmake/", "e3.CMake", "e[0-9].*", "*.CMake",
            # a trailing '/*' two and one level(s) above the input: everything below is excluded, the input included
            "BOX/*", "ANCESTOR/*", "**/work/*",
            # a file's name without its extension is another name (bare, absolute, and equal to a directory's name)
            "k", "e1", "ABSF:e2", "ABSF:x1/m", "y.cmake", "deep.cmake",
            # patterns with a path that match every CMake file of a leaf directory (nothing of it is left to document)
            "ABSF:x2/m.cmake", "**/x2/m.cmake"]


BLANK_FILES = ["old api.cmake", "api.cmake", "k.cmake"]
BLANK_DIRS = ["my dir", "dir"]


def blank_forms():
    """patterns with a blank inside (an ordinary character in gitignore syntax)"""
    return ["old api.cmake", "my dir/", "my dir", "ABSF:old api.cmake", "ABSD:my dir/", "old*", "* dir/"]


def resolve(p, boxroot):
    base = os.path.join(boxroot, "work", "in")
    if p.startswith("ABSF:") or p.startswith("ABSD:"):
        return os.path.join(base, p[5:])
    if p == "INPUT/":
        return base + "/"
    if p == "ANCESTOR/":                       # the directory that contains the input directory
        return os.path.dirname(base) + "/"
    if p == "ANCESTOR/*":
        return os.path.dirname(base) + "/*"
    if p == "BOX/*":                           # two levels above the input directory
        return os.path.dirname(os.path.dirname(base)) + "/*"
    if p.startswith("ABSGLOB:"):               # a glob in a component at/above the input directory
        return os.path.join(os.path.dirname(base), p[8:])
    return p


class Ambiguous(Exception):
    """auto-exclusion on and a directory whose .cmake files are all excluded: the statements do not say whether such a
    directory 'directly contains a .cmake file'; not judged"""


def expected(tree, pats, boxroot, recursive, auto=False):
    base = os.path.join(boxroot, "work", "in")

    def excluded(rel, isdir):
        return any(ref_match(p, os.path.join(base, rel), isdir) for p in pats)

    if any(ref_match(p, base, True) for p in pats):
        return None
    walk = {}

    def visit(rel):
        ents = [(r, d) for r, d in tree.entries() if os.path.dirname(r) == (rel if rel != "." else "")]
        walk[rel] = sorted(os.path.basename(r) for r, d in ents if not d and dirmodel.is_cmake(r) and not excluded(r, False))
        if auto and not walk[rel] and any(not d and r.endswith(".cmake") for r, d in ents):
            raise Ambiguous(rel)
        if auto and walk[rel] and not any(f.endswith(".cmake") for f in walk[rel]):
            # only files with a mixed-case extension are left: the statements cover those "next to at least one lower-case
            # .cmake file where auto-exclusion applies" - not judged
            raise Ambiguous(rel)
        if recursive:
            for r, d in ents:
                if d and not excluded(r, True):
                    if auto:
                        sub = [(r2, d2) for r2, d2 in tree.entries() if os.path.dirname(r2) == r and not d2]
                        kept = [r2 for r2, _ in sub if r2.endswith(".cmake") and not excluded(r2, False)]
                        if not kept and any(dirmodel.is_cmake(r2) and not excluded(r2, False) for r2, _ in sub):
                            raise Ambiguous(r)      # (same: only mixed-case extensions are left in that directory)
                        if not kept:
                            if any(r2.endswith(".cmake") for r2, _ in sub):
                                raise Ambiguous(r)
                            continue        # no .cmake file at all: skipped together with its subtree
                    visit(r)

    visit(".")
    return walk


def validate_matcher():
    import pathspec
    n = 0
    root = "/dev/shm/sandbox-zz/box-1"
    for t, forms in ((T(FILES, DIRS), pattern_forms()), (T(BLANK_FILES, BLANK_DIRS), blank_forms())):
      for p in forms:
          rp = resolve(p, root)
          spec = pathspec.PathSpec.from_lines("gitwildmatch", [rp])
          for rel, isdir in t.entries() + [("", True)]:
              ap = os.path.join(root, "work", "in", rel).rstrip("/")
              got = spec.match_file(ap + ("/" if isdir else ""))
              want = ref_match(rp, ap, isdir)
              n += 1
              if got != want:
                  raise common.HarnessFault(f"reference matcher disagrees with pathspec on pattern {rp!r} path {ap!r} "
                                            f"(dir={isdir}): pathspec {got}, reference {want}")
    return n


def run_case(job):
    files, dirs, pats, source, recursive, sched = job[:6]
    auto = job[6] if len(job) > 6 else False
    variant = job[7] if len(job) > 7 else None
    tree = T(files, dirs)
    box = fsbox.Box("c15")
    msgs = []
    nt = False
    got = None
    try:
        box.build(tree.spec())
        rp = [resolve(p, box.root) for p in pats]
        argv = ["-o", "out"] + (["-r"] if recursive else [])
        ucfg = None
        y = f"input:\n  auto_exclude_directories_without_cmake: {str(auto).lower()}\n"
        ylist = "  exclude_filters:\n" + "".join(f"    - '{p}'\n" for p in rp)
        if source.startswith("split"):
            # the patterns come from different sources in one run: the first from one, the rest from another
            a, b = {"split-cli-sfile": ("cli", "sfile"), "split-sfile-user": ("sfile", "user"),
                    "split-user-cli": ("user", "cli")}[source]
            parts = {a: rp[:1], b: rp[1:]}
        else:
            parts = {source: rp}
        for p in parts.get("cli", []):
            argv += ["-e", p]
        if parts.get("user"):
            ucfg = "input:\n  exclude_filters:\n" + "".join(f"    - '{p}'\n" for p in parts["user"])
        with open(box.path("work", "s.yaml"), "w") as f:
            f.write(y + ("  exclude_filters:\n" + "".join(f"    - '{p}'\n" for p in parts["sfile"])
                         if parts.get("sfile") else ""))
        argv += ["-s", "s.yaml"]
        schedule = fsbox.Schedule(mode=sched[0], table=dict(sched[1]), root=box.path("work", "in")) if sched else None
        try:
            exp = expected(tree, rp, box.root, recursive, auto)
        except Ambiguous:
            return {"viol": [], "obs": None, "nt": None, "n": 0}
        if variant == "cwd-elsewhere":
            # started from a directory that is not above the input tree, input given by its absolute path
            argv = [a if a != "s.yaml" else box.path("work", "s.yaml") for a in argv]
            argv[argv.index("-o") + 1] = box.path("work", "out")
            r = box.run(argv + [box.path("work", "in")], cwd="home", schedule=schedule, user_config=ucfg)
        elif variant == "dotdot":
            # the input spelled relative to a build directory next to it, with '..' components
            os.makedirs(box.path("work", "build", "deep"), exist_ok=True)
            argv = [a if a != "s.yaml" else box.path("work", "s.yaml") for a in argv]
            argv[argv.index("-o") + 1] = box.path("work", "out")
            r = box.run(argv + ["../../in"], cwd="work/build/deep", schedule=schedule, user_config=ucfg)
        elif variant == "out-inside":
            # the output directory is a direct child of the input directory and bears the name of deeper directories
            # ('deep'): what is written there is no exclusion pattern
            argv[argv.index("-o") + 1] = "in/deep"
            r = box.run(argv + ["in"], schedule=schedule, user_config=ucfg)
        elif variant == "excluded-first":
            # an input that is itself excluded in front of (and behind) the one under test: it is skipped, the others are not
            box.build({"first/zz.cmake": fsbox.cmake_content("zz.cmake"), "last/zz.cmake": fsbox.cmake_content("zz.cmake")})
            extra = ["-e", box.path("work", "first") + "/", "-e", "last/"]
            r = box.run(argv + extra + ["first", "in", "last"], schedule=schedule, user_config=ucfg)
        elif variant == "two-inputs":
            # a first input in front of the one under test: the patterns apply to every input
            box.build({"first/zz.cmake": fsbox.cmake_content("zz.cmake")})
            r = box.run(argv + ["first", "in"], schedule=schedule, user_config=ucfg)
        else:
            r = box.run(argv + ["in"], schedule=schedule, user_config=ucfg)
        outdir = box.path("work", "out") if variant != "out-inside" else box.path("work", "in", "deep")
        if r["status"] != 0:
            msgs.append(f"error: run failed: {r['exc'] or r['stdout'][-200:]}")
        elif exp is None:
            if os.path.exists(outdir):
                msgs.append(f"excluded-input: the input path itself is excluded but output was produced: "
                            f"{sorted(box.files('work/out')) or 'empty directory'}")
        else:
            got = set(box.files(os.path.relpath(outdir, box.root))) if os.path.isdir(outdir) else set()
            if variant == "two-inputs":
                got -= {"zz.rst"}       # the first input's own page (its index.rst is overwritten by the second input's)
            want = dirmodel.expected_files(exp)
            if got != want:
                extra, missing = sorted(got - want), sorted(want - got)
                msgs.append(f"processed-set: pages for excluded paths {extra}; pages missing for non-excluded paths {missing}")
            total = len([1 for r_, d in tree.entries() if not d])
            nt = not msgs and 0 < sum(len(v) for v in exp.values()) < total
        if msgs:
            msgs = [f"{m}   [patterns {pats} via {source}, recursive={recursive}, auto-exclusion={auto}, listing {sched}, files {files}, dirs {dirs}]"
                    for m in msgs]
    finally:
        box.cleanup()
    msgs = [m.replace(box.root, "<box>") for m in msgs]
    return {"viol": msgs[:4], "obs": common.digest(sorted(got) if got is not None else None), "n": 1,
            "nt": common.digest(job) if nt else None, "cls": msgs[0].split(":")[0] if msgs else None}


def subsets(pool, lo, hi):
    for k in range(lo, hi + 1):
        yield from itertools.combinations(pool, k)


def run(ctx):
    quick = ctx.tier == "quick"
    ctx.cov["matcher_validated_against_pathspec_on_pairs"] = validate_matcher()
    forms = pattern_forms()
    psets = [[p] for p in forms]
    if not quick:
        psets += [list(c) for c in itertools.combinations(forms, 2)]
    sources = ["cli", "sfile", "user"]
    jobs = []
    hi = 4
    for n, ps in enumerate(psets):
        src = sources[(n + ctx.seed) % 3]
        # file siblings vary, directories fixed
        for fs in subsets(FILES, 2, hi):
            for perm in itertools.permutations(fs):
                jobs.append((list(fs), ["x1", "y"], ps, src, True, ("sorted", ((".", list(perm) + ["x1", "y"]),))))
        # directory siblings vary, files fixed
        for ds in subsets(DIRS, 2, hi):
            for perm in itertools.permutations(ds):
                jobs.append((["e1.cmake", "k.cmake"], list(ds), ps, src, True,
                             ("sorted", ((".", ["e1.cmake", "k.cmake"] + list(perm)),))))
        # everything, listings reversed everywhere / sorted; non-recursive
        jobs.append((FILES, DIRS, ps, src, True, ("reversed", ())))
        jobs.append((FILES, DIRS, ps, src, True, None))
        jobs.append((FILES, DIRS, ps, src, False, ("reversed", ())))
        for s2 in sources:
            jobs.append((FILES[:3], DIRS[:3], ps, s2, True, ("reversed", ())))
    # auto-exclusion on (only where every directory keeps a non-excluded .cmake file or has none at all)
    for ps in psets:
        for sched in (None, ("reversed", ())):
            jobs.append((FILES, DIRS, ps, "cli", True, sched, True))
            jobs.append((FILES[:2], ["x1", "y"], ps, "sfile", True, sched, True))
    for ps in psets:
        jobs.append((FILES, DIRS, ps, "cli", True, None, False, "cwd-elsewhere"))
        if not any(p in ("INPUT/", "in", "in/", "i*/", "**/in/", "ANCESTOR/", "*.cmake") for p in ps):
            jobs.append((FILES, DIRS, ps, "sfile", True, None, False, "two-inputs"))
    for ps in [[]] + [[p] for p in ("k.cmake", "x2/", "e*.cmake", "m.cmake")]:
        jobs.append((FILES, DIRS, ps, "cli", True, None, False, "out-inside"))
        jobs.append((FILES, DIRS, ps, "sfile", True, ("reversed", ()), False, "out-inside"))
    for ps in psets:
        jobs.append((FILES, DIRS, ps, "cli", True, None, False, "dotdot"))
        if not any(p in ("INPUT/", "in", "in/", "i*/", "**/in/", "ANCESTOR/", "*.cmake", "BOX/*", "ANCESTOR/*", "**/work/*") for p in ps):
            jobs.append((FILES, DIRS, ps, "sfile", True, None, False, "excluded-first"))
    for ps in [[p] for p in blank_forms()]:
        for src in sources:
            for sched in (None, ("reversed", ())):
                jobs.append((BLANK_FILES, BLANK_DIRS, ps, src, True, sched))
    # two patterns supplied by two different sources in one run (the source must be irrelevant)
    two = [["k.cmake", "x1/"], ["e*.cmake", "y"], ["ABSF:e2.cmake", "x*/"], ["*.cmake", "**/deep/"], ["m.cmake", "e1.cmake"]]
    for ps in two:
        for src in ("split-cli-sfile", "split-sfile-user", "split-user-cli"):
            jobs.append((FILES, DIRS, ps, src, True, None))
            jobs.append((FILES, DIRS, ps, src, True, ("reversed", ())))
    ctx.cov["bounds"] = {"pattern_forms": forms, "pattern_sets": len(psets), "max_siblings": hi, "runs": len(jobs),
                         "files": FILES, "dirs": DIRS}
    ctx.sweep(run_case, jobs, space="patterns x trees x listing permutations", selftest=5)
    ctx.assumptions += ["auto-exclusion is off in most runs; with auto-exclusion on, cases in which a directory's .cmake files are all "
                        "excluded are not judged (the statements leave open whether such a directory contains a .cmake file)",
                        "pattern names do not collide with components of the sandbox's absolute path"]
    return RULE


def replay(case):
    files, dirs, pats, source, recursive, sched = case[:6]
    if sched:
        sched = (sched[0], tuple((k, v) for k, v in sched[1]))
    return run_case((files, dirs, pats, source, recursive, sched) + tuple(case[6:]))["viol"]
