"""C16 - settings layer as command line > -s file > user config > defaults (bounded-exhaustive configurations)."""
import itertools
import os

from .. import common, fsbox, pipeline

ID = "C16"
RULE = ("for every option of the input/output/rst sections: every subset of the sources that can set it (command line "
        "where a flag exists, -s file, per-user configuration) with every assignment of distinct type-correct values "
        "(booleans: every truth assignment), against two backgrounds (all other options unset / set in both files); "
        "exclude patterns: every subset of the three sources (union expected); output directory absolute/relative x "
        "set by each source x relative_to_config set nowhere/-s/user, true/false, with cwd, -s directory and user "
        "configuration directory all different; a wrong-typed value for every option in each file source.  The "
        "Settings object that cminx.main hands to cminx.document is observed through a recorder; defaults are parsed "
        "from config_default.yaml by the harness.  non-trivial = >=2 sources set the option; distinct by (option, "
        "assignment, background)")

BOOL_INPUT = ["include_undocumented_function", "include_undocumented_macro", "include_undocumented_cpp_class",
              "include_undocumented_cpp_attr", "include_undocumented_cpp_constructor", "include_undocumented_cpp_member",
              "include_undocumented_ct_add_test", "include_undocumented_add_test", "include_undocumented_ct_add_section",
              "include_undocumented_option", "auto_exclude_directories_without_cmake", "recursive", "follow_symlinks"]
STR_INPUT = ["kwargs_doc_trigger_string", "function_parameter_name_strip_regex", "macro_parameter_name_strip_regex",
             "member_parameter_name_strip_regex"]
OPTIONS = [("input", o, "bool") for o in BOOL_INPUT] + [("input", o, "str") for o in STR_INPUT] + \
          [("rst", "file_extensions_in_titles", "bool"), ("rst", "file_extensions_in_modules", "bool"),
           ("rst", "module_path_separator", "str"), ("rst", "headers", "list"), ("rst", "prefix", "str"),
           ("output", "relative_to_config", "bool")]
CLI_FLAG = {("input", "recursive"): "-r", ("rst", "prefix"): "-p"}
PRIORITY = ["cli", "sfile", "user"]


def defaults():
    y = pipeline.yaml_defaults()
    d = {}
    for sec in ("input", "output", "rst"):
        for k, v in (y.get(sec) or {}).items():
            d[(sec, k)] = v
    d.setdefault(("rst", "prefix"), None)
    d.setdefault(("output", "directory"), None)
    d.setdefault(("input", "exclude_filters"), [])
    return d


def value_for(typ, src, opt):
    if typ == "str":
        return f"{src}_{opt[-6:]}"
    if typ == "list":
        return {"cli": ["1", "2"], "sfile": ["=", "-", "~"], "user": ["+", "x"]}[src]
    raise ValueError


def yaml_dump(tree):
    import yaml
    return yaml.safe_dump(tree, default_flow_style=False)


def run_main(box, argv, sfile_tree, user_tree, cwd="work"):
    """run cminx.main with cminx.document replaced by a recorder; returns (settings|None, status, exc)"""
    import cminx
    rec = []
    saved = cminx.document
    cminx.document = lambda input_file, settings: rec.append(settings)
    try:
        if sfile_tree is not None:
            os.makedirs(box.path("sdir"), exist_ok=True)
            with open(box.path("sdir", "s.yaml"), "w") as f:
                f.write(yaml_dump(sfile_tree) if sfile_tree else "{}\n")
            argv = ["-s", box.path("sdir", "s.yaml")] + argv
        r = box.run(argv + ["in"], cwd=cwd, user_config=(yaml_dump(user_tree) if user_tree else None))
    finally:
        cminx.document = saved
    return (rec[0] if rec else None), r["status"], r["exc"] or r["stdout"][-300:]


def background(dflt, skip):
    """every other option set in both files to values that differ from the defaults and from each other"""
    s, u = {}, {}
    for sec, opt, typ in OPTIONS:
        if (sec, opt) == skip:
            continue
        if typ == "bool":
            s.setdefault(sec, {})[opt] = not dflt[(sec, opt)]
            u.setdefault(sec, {})[opt] = bool(dflt[(sec, opt)])
        else:
            s.setdefault(sec, {})[opt] = value_for(typ, "sfile", opt)
            u.setdefault(sec, {})[opt] = value_for(typ, "user", opt)
    return s, u


def get(settings, sec, opt):
    return getattr(getattr(settings, sec), opt)


def check_option(job):
    sec, opt, typ, assign, bg = job      # assign: {source: value}
    dflt = defaults()
    box = fsbox.Box("c16")
    msgs = []
    try:
        box.build({"in/a.cmake": "set(A 1)\n"})
        s_tree, u_tree = ({}, {})
        if bg:
            s_tree, u_tree = background(dflt, (sec, opt))
        argv = []
        for src, v in assign.items():
            if src == "cli":
                flag = CLI_FLAG[(sec, opt)]
                argv += [flag] if typ == "bool" else [flag, v]
            elif src == "sfile":
                s_tree.setdefault(sec, {})[opt] = v
            else:
                u_tree.setdefault(sec, {})[opt] = v
        st, status, exc = run_main(box, argv, s_tree if (s_tree or "sfile" in assign or bg) else None, u_tree or None)
        want = next((assign[s] for s in PRIORITY if s in assign), dflt[(sec, opt)])
        if st is None:
            msgs.append(f"error: main() failed for {sec}.{opt} set by {assign}: {exc}")
        else:
            got = get(st, sec, opt)
            if (list(got) if typ == "list" and got is not None else got) != want:
                msgs.append(f"precedence: {sec}.{opt} is {got!r}, expected {want!r} (sources {assign}, default "
                            f"{dflt[(sec, opt)]!r}, background {'set' if bg else 'unset'})")
            if bg:   # the by-standers must take the -s file's value (highest source that sets them)
                for s2, o2, t2 in OPTIONS:
                    if (s2, o2) == (sec, opt):
                        continue
                    w2 = (not dflt[(s2, o2)]) if t2 == "bool" else value_for(t2, "sfile", o2)
                    if (s2, o2) in CLI_FLAG and False:
                        pass
                    g2 = get(st, s2, o2)
                    if (list(g2) if t2 == "list" and g2 is not None else g2) != w2:
                        msgs.append(f"precedence: by-stander {s2}.{o2} is {g2!r}, expected the -s file's {w2!r}")
    finally:
        box.cleanup()
    msgs = [m.replace(box.root, "<box>") for m in msgs]
    return {"viol": msgs[:4], "obs": common.digest([sec, opt, str(assign), bg, not msgs]), "n": 1,
            "nt": common.digest(job) if len(assign) >= 2 else None, "cls": msgs[0].split(":")[0] if msgs else None}


def check_pair(job):
    """two options, each set in a different file source (and both in both): every option follows its own sources"""
    (s1, o1, t1), (s2, o2, t2), mode = job
    dflt = defaults()
    box = fsbox.Box("c16p")
    msgs = []
    try:
        box.build({"in/a.cmake": "set(A 1)\n"})

        def val(sec, opt, typ, src):
            return (not dflt[(sec, opt)]) if typ == "bool" and src == "sfile" else bool(dflt[(sec, opt)]) if typ == "bool" \
                else value_for(typ, src, opt)
        s_tree, u_tree = {}, {}
        if mode == "cross":
            s_tree.setdefault(s1, {})[o1] = val(s1, o1, t1, "sfile")
            u_tree.setdefault(s2, {})[o2] = val(s2, o2, t2, "user")
            want = {(s1, o1): val(s1, o1, t1, "sfile"), (s2, o2): val(s2, o2, t2, "user")}
        else:
            for tree, src in ((s_tree, "sfile"), (u_tree, "user")):
                tree.setdefault(s1, {})[o1] = val(s1, o1, t1, src)
                tree.setdefault(s2, {})[o2] = val(s2, o2, t2, src)
            want = {(s1, o1): val(s1, o1, t1, "sfile"), (s2, o2): val(s2, o2, t2, "sfile")}
        st, status, exc = run_main(box, [], s_tree, u_tree)
        if st is None:
            msgs.append(f"error: main() failed: {exc}")
        else:
            for (sec, opt), w in want.items():
                g = get(st, sec, opt)
                if (list(g) if isinstance(g, (list, tuple)) else g) != w:
                    msgs.append(f"precedence: {sec}.{opt} is {g!r}, expected {w!r} when {s1}.{o1} and {s2}.{o2} are set "
                                f"({mode}: -s file / user configuration)")
    finally:
        box.cleanup()
    return {"viol": msgs[:3], "obs": common.digest([job, not msgs]), "n": 1, "nt": common.digest(job),
            "cls": "precedence" if msgs else None}


def check_defaults(job):
    """nothing set anywhere: every option takes the documented default"""
    dflt = defaults()
    box = fsbox.Box("c16d")
    msgs = []
    try:
        box.build({"in/a.cmake": "set(A 1)\n"})
        st, status, exc = run_main(box, [], None, None)
        if st is None:
            msgs.append(f"error: main() failed with no settings at all: {exc}")
        else:
            for (sec, opt), v in sorted(dflt.items()):
                got = get(st, sec, opt)
                if isinstance(v, list):
                    got = list(got)
                if got != v:
                    msgs.append(f"default: {sec}.{opt} is {got!r} when set nowhere, config_default.yaml documents {v!r}")
    finally:
        box.cleanup()
    return {"viol": msgs[:6], "obs": common.digest(msgs), "n": 1, "nt": "defaults", "cls": "default" if msgs else None}


def check_excludes(job):
    subset = tuple(s for s in job if not s.startswith("empty:"))
    empties = [s[6:] for s in job if s.startswith("empty:")]      # sources that set an explicitly empty list
    box = fsbox.Box("c16e")
    msgs = []
    try:
        box.build({"in/a.cmake": "set(A 1)\n"})
        pats = {"cli": ["c1", "c2/", "old*/", "src/legacy/api.cmake", "in/sub/"], "sfile": ["s1", "shared", "c2", "src/legacy/other.cmake"],
                "user": ["u1", "shared", "old*", "in/a.cmake"]}     # relative patterns with an inner slash stay as they are written    # 'x/' and 'x' are different patterns
        argv = []
        for p in (pats["cli"] if "cli" in subset else []):
            argv += ["-e", p]
        st, status, exc = run_main(box, argv,
                                   {"input": {"exclude_filters": pats["sfile"]}} if "sfile" in subset else
                                   {"input": {"exclude_filters": []}} if "sfile" in empties else None,
                                   {"input": {"exclude_filters": pats["user"]}} if "user" in subset else
                                   {"input": {"exclude_filters": []}} if "user" in empties else None)
        want = sorted(p for s in subset for p in pats[s])
        if st is None:
            msgs.append(f"error: main() failed: {exc}")
        elif sorted(st.input.exclude_filters) != want:
            msgs.append(f"union: exclude patterns are {sorted(st.input.exclude_filters)}, expected the union {want} of {list(subset)}")
    finally:
        box.cleanup()
    return {"viol": msgs, "obs": common.digest([subset, not msgs]), "n": 1,
            "nt": common.digest(subset) if len(subset) >= 2 else None, "cls": "union" if msgs else None}


def check_outdir(job):
    value_kind, dir_src, rtc_src, rtc_val, real = job
    box = fsbox.Box("c16o")
    msgs = []
    try:
        box.build({"in/a.cmake": "set(A 1)\n"})
        os.makedirs(box.path("sdir"), exist_ok=True)
        rel = "outdir/sub"
        val = rel if value_kind == "relative" else box.path("elsewhere", "abs-out")
        s_tree, u_tree, argv = {}, {}, []
        if dir_src == "cli":
            argv += ["-o", val]
        elif dir_src == "sfile":
            s_tree.setdefault("output", {})["directory"] = val
        else:
            u_tree.setdefault("output", {})["directory"] = val
        if rtc_src == "sfile":
            s_tree.setdefault("output", {})["relative_to_config"] = rtc_val
        elif rtc_src == "user":
            u_tree.setdefault("output", {})["relative_to_config"] = rtc_val
        rtc = rtc_val if rtc_src != "none" else False
        if value_kind == "absolute":
            want = val
        elif rtc and dir_src == "sfile":
            want = box.path("sdir", rel)
        elif rtc and dir_src == "user":
            want = box.path("cfg", rel)
        else:
            want = box.path("work", rel)
        if real:
            with open(box.path("sdir", "s.yaml"), "w") as f:
                f.write(yaml_dump(s_tree) if s_tree else "{}\n")
            r = box.run(["-s", box.path("sdir", "s.yaml")] + argv + [box.path("work", "in")], cwd="work",
                        user_config=(yaml_dump(u_tree) if u_tree else None))
            if r["status"] != 0:
                msgs.append(f"error: run failed: {r['exc'] or r['stdout'][-200:]}")
            elif not os.path.exists(os.path.join(want, "a.rst")):
                found = [k for k in box.snapshot() if k.endswith("a.rst")]
                msgs.append(f"output-location: page expected in {want}, found {found} (directory {value_kind} set by "
                            f"{dir_src}, relative_to_config={rtc_val} set by {rtc_src})")
        else:
            st, status, exc = run_main(box, argv, s_tree, u_tree or None)
            if st is None:
                msgs.append(f"error: main() failed: {exc}")
            elif os.path.normpath(st.output.directory) != os.path.normpath(want):
                msgs.append(f"output-location: output.directory resolves to {st.output.directory!r}, expected {want!r} "
                            f"(directory {value_kind} set by {dir_src}, relative_to_config={rtc_val} set by {rtc_src})")
    finally:
        box.cleanup()
    msgs = [m.replace(box.root, "<box>") for m in msgs]
    return {"viol": msgs, "obs": common.digest([job, not msgs]), "n": 1, "nt": common.digest(job),
            "cls": msgs[0].split(":")[0] if msgs else None}


def check_cli_combo(job):
    """every subset of the command-line option flags at once, over both backgrounds: each option follows its own
    sources (a flag must not disturb, or be lost because of, another flag)"""
    flags, bg = job
    dflt = defaults()
    box = fsbox.Box("c16c")
    msgs = []
    try:
        box.build({"in/a.cmake": "set(A 1)\n"})
        s_tree, u_tree = background(dflt, None) if bg else ({}, {})
        if bg:
            s_tree.setdefault("input", {})["exclude_filters"] = ["s1"]
            u_tree.setdefault("input", {})["exclude_filters"] = ["u1"]
            s_tree.setdefault("output", {})["directory"] = box.path("s-out")
            u_tree.setdefault("output", {})["directory"] = box.path("u-out")
        argv = []
        for f in flags:
            argv += {"-r": ["-r"], "-p": ["-p", "cli_prefix"], "-e": ["-e", "c1"], "-o": ["-o", box.path("cli-out")]}[f]
        st, status, exc = run_main(box, argv, s_tree if bg else None, u_tree or None)
        if st is None:
            msgs.append(f"error: main() failed with flags {list(flags)}: {exc}")
        else:
            def low(sec, opt, typ):
                return ((not dflt[(sec, opt)]) if typ == "bool" else value_for(typ, "sfile", opt)) if bg else dflt[(sec, opt)]
            want = {("input", "recursive"): True if "-r" in flags else low("input", "recursive", "bool"),
                    ("rst", "prefix"): "cli_prefix" if "-p" in flags else low("rst", "prefix", "str"),
                    ("input", "exclude_filters"): sorted((["c1"] if "-e" in flags else []) + (["s1", "u1"] if bg else [])),
                    ("output", "directory"): box.path("cli-out") if "-o" in flags else (box.path("s-out") if bg else None)}
            for sec, opt, typ in OPTIONS:
                want.setdefault((sec, opt), low(sec, opt, typ))
            for (sec, opt), w in sorted(want.items()):
                g = get(st, sec, opt)
                if (sec, opt) == ("input", "exclude_filters"):
                    g = sorted(g)
                elif isinstance(g, (list, tuple)):
                    g = list(g)
                if (sec, opt) == ("output", "directory") and g is not None and w is not None:
                    g, w = os.path.normpath(g), os.path.normpath(w)
                if g != w:
                    msgs.append(f"precedence: {sec}.{opt} is {g!r}, expected {w!r} with command-line flags {list(flags)} "
                                f"({'both files set every option' if bg else 'no settings files'})")
    finally:
        box.cleanup()
    msgs = [m.replace(box.root, "<box>") for m in msgs]
    return {"viol": msgs[:4], "obs": common.digest([job, not msgs]), "n": 1, "nt": common.digest(job) if flags else None,
            "cls": "precedence" if msgs else None}


def check_two_runs(job):
    """two runs of cminx.main in one process; the settings file of one source is rewritten in between (same path, pinned
    modification time): the second run follows the second content"""
    sec, opt, typ, src, second = job      # second: "other" (another value) | "unset" (the file no longer sets it)
    dflt = defaults()
    box = fsbox.Box("c16t")
    msgs = []
    try:
        box.build({"in/a.cmake": "set(A 1)\n"})
        v1 = (not dflt[(sec, opt)]) if typ == "bool" else value_for(typ, "sfile", opt)
        v2 = dflt[(sec, opt)] if typ == "bool" else value_for(typ, "user", opt)
        t1 = {sec: {opt: v1}}
        t2 = {sec: {opt: v2}} if second == "other" else {"rst": {"module_path_separator": "/"}} if (sec, opt) != ("rst", "module_path_separator") else {}
        want2 = v2 if second == "other" else dflt[(sec, opt)]
        import cminx
        rec = []
        saved = cminx.document
        cminx.document = lambda input_file, settings: rec.append(settings)
        try:
            os.makedirs(box.path("sdir"), exist_ok=True)
            os.makedirs(box.path("cfg"), exist_ok=True)
            res = []
            for tree in (t1, t2):
                rec.clear()
                if src == "sfile":
                    with open(box.path("sdir", "s.yaml"), "w") as f:
                        f.write(yaml_dump(tree) if tree else "{}\n")
                    os.utime(box.path("sdir", "s.yaml"), (pipeline.FIXED_MTIME, pipeline.FIXED_MTIME))
                    r = box.run(["-s", box.path("sdir", "s.yaml"), "in"], cwd="work", user_config=None)
                else:
                    r = box.run(["in"], cwd="work", user_config=yaml_dump(tree) if tree else "{}\n")
                res.append((rec[0] if rec else None, r))
        finally:
            cminx.document = saved
        for n, ((st, r), w) in enumerate(zip(res, (v1, want2))):
            if st is None:
                msgs.append(f"error: run {n + 1} failed: {r['exc'] or r['stdout'][-200:]}")
                continue
            g = get(st, sec, opt)
            g = list(g) if isinstance(g, (list, tuple)) else g
            if g != w:
                msgs.append(f"{'precedence' if n == 0 else 'stale'}: run {n + 1} of 2 in one process: {sec}.{opt} is {g!r}, expected {w!r} "
                            f"(the {src} file {'sets another value' if second == 'other' else 'no longer sets it'} in run 2)")
    finally:
        box.cleanup()
    msgs = [m.replace(box.root, "<box>") for m in msgs]
    return {"viol": msgs[:3], "obs": common.digest([job, not msgs]), "n": 2, "nt": common.digest(job),
            "cls": msgs[0].split(":")[0] if msgs else None}


WRONG = {"bool": ["maybe", ["a"], 3, 1, 0], "str": [["l"], {"k": "v"}, False, 0, []], "list": [{"k": "v"}, 5]}


def check_wrong_type(job):
    sec, opt, typ, src, bad = job
    dflt = defaults()
    box = fsbox.Box("c16w")
    msgs = []
    try:
        box.build({"in/a.cmake": "set(A 1)\n"})
        tree = {sec: {opt: bad}}
        st, status, exc = run_main(box, [], tree if src == "sfile" else {}, tree if src == "user" else None)
        if st is not None:
            got = get(st, sec, opt)
            same = (type(got) is type(bad) and got == bad) or (isinstance(got, (list, tuple)) and isinstance(bad, list)
                                                              and list(got) == bad)
            if not same:
                msgs.append(f"wrong-type: {sec}.{opt} given {bad!r} in the {src} file is silently replaced by {got!r}")
    finally:
        box.cleanup()
    return {"viol": msgs, "obs": common.digest([job, st is None]), "n": 1, "nt": common.digest(job),
            "cls": "wrong-type" if msgs else None}


PREFIXES = ["proj/cmake", "./p", "a//b", "trail/", "$HOME", "api-${HOME}", "~", "%(x)s", "{0}", "two words", "dots.in.it", "../up"]


def check_prefix_text(job):
    """the prefix in effect is the text that was set (whatever it looks like), through the complete run: the page of a.cmake is
    titled <prefix>.a"""
    prefix, src = job
    box = fsbox.Box("c16p2")
    msgs = []
    try:
        box.build({"in/a.cmake": "set(A 1)\n"})
        with open(box.path("work", "s.yaml"), "w") as f:
            f.write(yaml_dump({"rst": {"prefix": prefix}}) if src == "sfile" else "{}\n")
        argv = ["-s", "s.yaml", "-o", "out"] + (["-p", prefix] if src == "cli" else []) + ["in"]
        r = box.run(argv, user_config=yaml_dump({"rst": {"prefix": prefix}}) if src == "user" else None, env={"HOME": "/somewhere/else"})
        if r["status"] != 0:
            msgs.append(f"error: run failed: {r['exc'] or r['stdout'][-200:]}")
        else:
            lines = [l for l in box.page("work/out", "a.rst").split("\n") if l.strip()]
            index = [l for l in box.page("work/out", "index.rst").split("\n") if l.strip()]
            if len(lines) < 2 or len(index) < 2:
                msgs.append(f"output-location: the run succeeded but work/out holds no a.rst/index.rst (found: {sorted(k for k in box.snapshot() if k.endswith('.rst'))[:4]})")
            elif lines[1] != prefix + ".a" or f".. module:: {prefix}.a" not in lines:
                msgs.append(f"prefix-text: rst.prefix {prefix!r} set by {src}: the page of a.cmake is titled {lines[1]!r}, expected {prefix + '.a'!r}")
            elif index[1] != prefix:
                msgs.append(f"prefix-text: rst.prefix {prefix!r} set by {src}: the index is titled {index[1]!r}")
    finally:
        box.cleanup()
    return {"viol": msgs[:2], "obs": common.digest([job, msgs]), "n": 1, "nt": common.digest(job), "cls": msgs[0].split(":")[0] if msgs else None,
            "case": {"prefix_text": list(job)}}


def check_null(job):
    """an explicit null: for the optional options (rst.prefix, output.directory) it is a value like any other and follows the
    priority of its source; for every other option it is a wrongly typed value"""
    sec, opt, typ, src = job
    dflt = defaults()
    box = fsbox.Box("c16n")
    msgs = []
    try:
        box.build({"in/a.cmake": "set(A 1)\n"})
        lower = (not dflt[(sec, opt)]) if typ == "bool" else value_for(typ, "user", opt) if typ in ("str", "list") else "lowval"
        s_tree = {sec: {opt: None}} if src == "sfile" else {}
        u_tree = {sec: {opt: None}} if src == "user" else {sec: {opt: lower}}
        st, status, exc = run_main(box, [], s_tree, u_tree)
        optional = (sec, opt) in (("rst", "prefix"), ("output", "directory"))
        if optional:
            if st is None:
                msgs.append(f"error: main() failed for {sec}.{opt}: null in the {src} file: {exc}")
            elif get(st, sec, opt) is not None and src == "sfile":
                msgs.append(f"precedence: {sec}.{opt} is {get(st, sec, opt)!r}: the null in the -s file is overridden by the user configuration")
        elif st is not None and typ != "str":
            # (a null for a plain string option is read as 'not set' by the configuration library: not judged either way)
            got = get(st, sec, opt)
            msgs.append(f"wrong-type: {sec}.{opt} given null in the {src} file is silently replaced by {got!r}")
    finally:
        box.cleanup()
    return {"viol": msgs, "obs": common.digest([job, not msgs]), "n": 1, "nt": common.digest(job), "cls": msgs[0].split(":")[0] if msgs else None,
            "case": {"null": list(job)}}


def check_rtc_layers(job):
    """relative_to_config set by BOTH file sources with different values: the -s file's value decides (here: where a relative
    output directory given in the -s file, whose directory is not the working directory, ends up)"""
    s_val, u_val = job
    box = fsbox.Box("c16r")
    msgs = []
    try:
        box.build({"in/a.cmake": "set(A 1)\n"})
        os.makedirs(box.path("sdir"), exist_ok=True)
        with open(box.path("sdir", "s.yaml"), "w") as f:
            f.write(yaml_dump({"output": {"relative_to_config": s_val, "directory": "rst_out"}}))
        r = box.run(["-s", box.path("sdir", "s.yaml"), box.path("work", "in")], cwd="work",
                    user_config=yaml_dump({"output": {"relative_to_config": u_val}}))
        want = box.path("sdir", "rst_out") if s_val else box.path("work", "rst_out")
        if r["status"] != 0:
            msgs.append(f"error: run failed: {r['exc'] or r['stdout'][-200:]}")
        elif not os.path.exists(os.path.join(want, "a.rst")):
            found = [k for k in box.snapshot() if k.endswith("a.rst")]
            msgs.append(f"output-location: relative_to_config is {s_val} in the -s file and {u_val} in the user configuration: the page is "
                        f"expected in {want}, found {found}")
    finally:
        box.cleanup()
    msgs = [m.replace(box.root, "<box>") for m in msgs]
    return {"viol": msgs, "obs": common.digest([job, not msgs]), "n": 1, "nt": common.digest(job), "cls": msgs[0].split(":")[0] if msgs else None,
            "case": {"rtc_layers": list(job)}}


def check_wrong_excludes(job):
    """a wrongly typed exclude_filters value in one file source while another source gives a valid list: the union cannot
    be formed, the run must be refused (never: the bad layer silently dropped)"""
    bad_src, bad, good_src = job
    box = fsbox.Box("c16x")
    msgs = []
    try:
        box.build({"in/a.cmake": "set(A 1)\n"})
        trees = {"sfile": {}, "user": {}}
        trees[bad_src] = {"input": {"exclude_filters": bad}}
        argv = []
        if good_src == "cli":
            argv = ["-e", "g1"]
        elif good_src in trees:
            trees[good_src] = {"input": {"exclude_filters": ["g1"]}}
        if isinstance(bad, list):
            # a list with an entry that is no string: the complete run (pattern compilation included) must refuse it
            with open(box.path("work", "s.yaml"), "w") as f:
                f.write(yaml_dump(trees["sfile"]) if trees["sfile"] else "{}\n")
            r = box.run(["-s", "s.yaml", "-o", "out"] + argv + ["in"], user_config=yaml_dump(trees["user"]) if trees["user"] else None)
            if r["status"] == 0:
                msgs.append(f"wrong-type: input.exclude_filters {bad!r} in the {bad_src} file (entry that is not a string) is accepted "
                            f"silently: the run succeeds")
            st = None
        else:
            st, status, exc = run_main(box, argv, trees["sfile"] or ({} if bad_src == "sfile" or good_src == "sfile" else None), trees["user"] or None)
        if st is not None:
            msgs.append(f"wrong-type: input.exclude_filters given {bad!r} in the {bad_src} file (a valid list comes from {good_src}) is "
                        f"silently dropped: the run goes ahead with {sorted(st.input.exclude_filters)}")
    finally:
        box.cleanup()
    return {"viol": msgs, "obs": common.digest([job, not msgs]), "n": 1, "nt": common.digest(job), "cls": "wrong-type" if msgs else None,
            "case": {"wrong_excludes": list(job)}}


def run(ctx):
    quick = ctx.tier == "quick"
    jobs = []
    for sec, opt, typ in OPTIONS:
        srcs = (["cli"] if (sec, opt) in CLI_FLAG else []) + ["sfile", "user"]
        for k in range(1, len(srcs) + 1):
            for subset in itertools.combinations(srcs, k):
                if typ == "bool":
                    assigns = []
                    for bits in itertools.product((True, False), repeat=len(subset)):
                        a = dict(zip(subset, bits))
                        if a.get("cli") is False:
                            continue     # a store_true flag cannot say False
                        assigns.append(a)
                else:
                    assigns = [{s: value_for(typ, s, opt) for s in subset}]
                for a in assigns:
                    for bg in (False, True):
                        jobs.append((sec, opt, typ, a, bg))
    ctx.sweep(check_option, jobs, space="options x source subsets x backgrounds", selftest=3)
    ctx.sweep(check_defaults, [0], space="defaults", selftest=0)
    opts = OPTIONS if not quick else OPTIONS[::3]
    pjobs = [(a, b, mode) for a, b in itertools.permutations(opts, 2) for mode in ("cross", "both")]
    ctx.sweep(check_pair, pjobs, space="pairs of options across the two file sources", selftest=2)
    subsets = [s for k in range(0, 4) for s in itertools.combinations(PRIORITY, k)]
    subsets += [("empty:sfile", "user"), ("empty:sfile", "cli", "user"), ("empty:user", "sfile"), ("empty:sfile", "empty:user", "cli")]
    ctx.sweep(check_excludes, subsets, space="exclude union", selftest=0)
    ojobs = []
    for vk in ("relative", "absolute"):
        for ds in PRIORITY:
            for rs, rv in (("none", False), ("sfile", True), ("sfile", False), ("user", True), ("user", False)):
                ojobs.append((vk, ds, rs, rv, False))
                ojobs.append((vk, ds, rs, rv, True))
    ctx.sweep(check_outdir, ojobs, space="output directory resolution", selftest=2)
    wjobs = [(sec, opt, typ, src, bad) for sec, opt, typ in OPTIONS for src in ("sfile", "user") for bad in WRONG[typ]]
    ctx.sweep(check_wrong_type, wjobs, space="wrong-typed values", selftest=2)
    # ... and lists whose entries are not strings (YAML reads 1.10, on, ~ as a number, a boolean, null)
    ctx.sweep(check_prefix_text, [(p_, src) for p_ in PREFIXES for src in ("cli", "sfile", "user")], space="prefix texts through the complete run", selftest=1)
    nj = [(sec, opt, typ, src) for sec, opt, typ in OPTIONS + [("output", "directory", "str")] for src in ("sfile", "user")]
    ctx.sweep(check_null, nj, space="explicit null per option and file source", selftest=1)
    ctx.sweep(check_rtc_layers, [(a, b) for a in (True, False) for b in (True, False)], space="relative_to_config set by both file sources", selftest=1)
    xjobs = [(bs, bad, gs) for bs in ("sfile", "user") for bad in (7, True, {"k": "v"}, 1.5, [1.10], ["ok", True], [None], [["nested"]])
             for gs in ("cli", "sfile", "user", "none") if gs != bs]
    ctx.sweep(check_wrong_excludes, xjobs, space="wrongly typed exclude_filters below/above a valid list", selftest=1)
    flagsets = [fs for k in range(0, 5) for fs in itertools.combinations(("-r", "-p", "-e", "-o"), k)]
    ctx.sweep(check_cli_combo, [(fs, bg) for fs in flagsets for bg in (False, True)],
              space="subsets of command-line flags x backgrounds", selftest=2)
    tjobs = [(sec, opt, typ, src, second) for sec, opt, typ in OPTIONS for src in ("sfile", "user") for second in ("other", "unset")]
    ctx.sweep(check_two_runs, tjobs, space="two runs in one process, settings file rewritten in between", selftest=2)
    ctx.cov["bounds"] = {"options": [f"{s}.{o}" for s, o, _ in OPTIONS] + ["input.exclude_filters", "output.directory"],
                         "sources": PRIORITY + ["defaults"]}
    ctx.assumptions += ["the logging section is outside the statement", "a store_true flag can only set True",
                        "wrong type: rejection or use of the given value are both accepted, silent replacement is not",
                        "an explicit null is judged for the two optional options (a value like any other) and for boolean/list options (rejected); "
                        "for plain string options the configuration library reads it as 'not set' - not judged"]
    return RULE


def replay(case):
    if isinstance(case, dict) and "rtc_layers" in case:
        return check_rtc_layers(tuple(case["rtc_layers"]))["viol"]
    if isinstance(case, dict) and "prefix_text" in case:
        return check_prefix_text(tuple(case["prefix_text"]))["viol"]
    if isinstance(case, dict) and "null" in case:
        return check_null(tuple(case["null"]))["viol"]
    if isinstance(case, dict) and "wrong_excludes" in case:
        return check_wrong_excludes(tuple(case["wrong_excludes"]))["viol"]
    if isinstance(case, list) and len(case) == 2 and isinstance(case[1], bool):
        return check_cli_combo((tuple(case[0]), case[1]))["viol"]
    if isinstance(case, list) and len(case) == 5 and case[4] in ("other", "unset"):
        return common.in_fork(check_two_runs, tuple(case))["viol"]
    if isinstance(case, list) and len(case) == 3 and isinstance(case[0], list):
        return check_pair((tuple(case[0]), tuple(case[1]), case[2]))["viol"]
    if isinstance(case, list) and len(case) == 5 and isinstance(case[3], dict):
        return check_option(tuple(case))["viol"]
    if isinstance(case, list) and len(case) == 5 and case[0] in ("relative", "absolute"):
        return check_outdir(tuple(case))["viol"]
    if isinstance(case, list) and len(case) == 5:
        return check_wrong_type(tuple(case))["viol"]
    if case == 0:
        return check_defaults(0)["viol"]
    return check_excludes(tuple(case))["viol"]
