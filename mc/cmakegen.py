"""Abstract CMake modules -> token lists -> concrete text under a layout.

An *event* is a dict with key "k" (kind).  A module is a list of events; `close()` appends the closers a
history still needs.  `items(events)` turns events into source items (doccomments, commands, comments),
`render(items, layout)` into text.  All names are derived from the event's index so that every entry of the
output can be attributed to exactly one source command.
"""
from . import common

DEF_KINDS = ("function", "macro")
IMPL_KINDS = ("cpp_member", "cpp_constructor", "ct_add_test", "ct_add_section")
OPENERS = DEF_KINDS + IMPL_KINDS + ("if", "foreach", "cpp_class")

COMMENT_SHAPES = ["# plain line comment", "#[[ bracket comment ]]", "#[=[ level one ]] still ]=]",
                  "# function(commented_out)", "#[[ #[[[ not a doccomment ]]", "#[==[\nmulti\nline\n]==]",
                  "#", "#[", "#[=", "#[=x", "# #[[[ x", "#]]", "# set(A 1)"]


def case_of(name, mode):
    if mode == "upper":
        return name.upper()
    if mode == "mixed":
        return "".join(c.upper() if i % 2 == 0 else c.lower() for i, c in enumerate(name))
    return name.lower()


def ident(prefix, i):
    pools = {"f": ["fn", "do_it", "Alpha"], "m": ["mac", "my_macro", "Beta"], "c": ["Cls", "MyClass", "Widget"],
             "a": ["attr", "color", "size_"], "mem": ["meth", "run", "get_x"], "t": ["tst", "case", "check_it"],
             "s": ["sect", "part", "sub_case"], "o": ["OPT", "ENABLE_X", "WITH_Y"], "v": ["VAR", "MY_LIST", "value"],
             "ct": ["ctst", "smoke", "unit_x"], "l": ["lib", "target", "core"]}
    pool = common.rot(pools[prefix])
    return f"{pool[i % len(pool)]}_{i}"


def doc_lines(ev, i):
    """the doc text lines of event i (what the generator *knows* must reach the output)"""
    d = ev.get("doc", 0)
    if not d:
        return None
    if "doctext" in ev:
        return list(ev["doctext"])
    return [f"Doc marker {ev['k']}-{i}.", "", f"Second line of {i}."]


def name_of(ev, i):
    if "name" in ev:
        return ev["name"]
    if "nameprefix" in ev:
        return ev["nameprefix"] + str(i)
    k = ev["k"]
    return ident({"function": "f", "macro": "m", "cpp_class": "c", "cpp_attr": "a", "cpp_member": "mem",
                  "cpp_constructor": "mem", "ct_add_test": "t", "ct_add_section": "s", "add_test": "ct",
                  "option": "o", "set": "v"}.get(k, "l"), i)


def stack_of(events):
    """open blocks after the history: list of (kind, index)"""
    st = []
    for i, ev in enumerate(events):
        k = ev["k"]
        if k in OPENERS:
            st.append((k, i))
        elif k == "close":
            st.pop()
    return st


def closer_for(kind, events, idx):
    if kind in DEF_KINDS:
        return "end" + kind
    if kind in IMPL_KINDS:
        return "end" + events[idx].get("impl", "function")
    return {"if": "endif", "foreach": "endforeach", "cpp_class": "cpp_end_class"}[kind]


def close(events):
    """the balanced closure of a history"""
    out = list(events)
    for _ in stack_of(events):
        out.append({"k": "close"})
    return out


def class_name_at(events, i, up=0):
    """name of the innermost class open at event i ('NoClass' if none); up=n: of the n-th enclosing class instead (a
    declaration may *name* an outer class while it sits in an inner one - it still belongs to the class it sits in)"""
    st = []
    for j, ev in enumerate(events[:i]):
        if ev["k"] in OPENERS:
            st.append((ev["k"], j))
        elif ev["k"] == "close":
            st.pop()
    open_classes = [j for k, j in reversed(st) if k == "cpp_class"]
    if open_classes:
        j = open_classes[min(up, len(open_classes) - 1)]
        return name_of(events[j], j)
    return "NoClass"


# ---------------------------------------------------------------- items

def items(events, case="lower", trailing_dangling=False):
    """source items: ("doc", [lines], module_name|None) | ("cmd", name, [args]) | ("comment", text)
    args are strings as written; a nested list is a parenthesised (compound) argument."""
    out = []
    st = []
    for i, ev in enumerate(events):
        k = ev["k"]
        d = ev.get("doc", 0)
        if d == 2:
            out.append(("doc", [f"Dangling before {i}."], None))
        if d and k != "module":
            out.append(("doc", doc_lines(ev, i), None))
            if ev.get("docgap"):      # an ordinary comment between the doccomment and its command (the lexer skips it)
                out.append(("comment", ev["docgap"]))
        nm = name_of(ev, i)

        def cmd(name, args):
            out.append(("cmd", case_of(name, case), args))

        if k in DEF_KINDS:
            cmd(k, [nm] + list(ev.get("params", [])))
            st.append((k, i))
        elif k == "close":
            kind, j = st.pop()
            cmd(closer_for(kind, events, j), [])
        elif k == "if":
            cmd("if", ev.get("args", ["COND_%d" % i]))
            st.append((k, i))
        elif k == "foreach":
            cmd("foreach", ["it_%d" % i, "a", "b"])
            st.append((k, i))
        elif k == "cpp_class":
            cmd("cpp_class", [nm] + list(ev.get("bases", [])))
            st.append((k, i))
        elif k == "cpp_attr":
            args = [class_name_at(events, i, ev.get("cls_up", 0)), nm]
            if ev.get("default") is not None:
                args.append(ev["default"])
            cmd("cpp_attr", args)
        elif k in ("cpp_member", "cpp_constructor"):
            cls = class_name_at(events, i, ev.get("cls_up", 0))
            mname = nm if k == "cpp_member" else ev.get("ctor", "CTOR")
            cmd(k, [mname, cls] + list(ev.get("types", [])))
            if "declgap" in ev:       # blank line ("") or an ordinary comment between the declaration and its definition
                out.append(("comment", ev["declgap"]))
            for bname, bargs in ev.get("between", []):
                cmd(bname, list(bargs))
            if ev.get("impldoc"):
                out.append(("doc", list(ev["impldoc"]) if isinstance(ev["impldoc"], (list, tuple))
                            else [f"Doc on the implementing definition of {i}."], None))
            cmd(ev.get("impl", "function"), ['"${%s}"' % mname, ev.get("selfname", "self")] + list(ev.get("params", [])))
            st.append((k, i))
        elif k in ("ct_add_test", "ct_add_section"):
            args = ["NAME", nm] + (["EXPECTFAIL"] if ev.get("expectfail") else [])
            if "args" in ev:
                args = list(ev["args"])
            cmd(k, args)
            if "declgap" in ev:
                out.append(("comment", ev["declgap"]))
            for bname, bargs in ev.get("between", []):
                cmd(bname, list(bargs))
            if ev.get("impldoc"):
                out.append(("doc", list(ev["impldoc"]) if isinstance(ev["impldoc"], (list, tuple))
                            else [f"Doc on the implementing definition of {i}."], None))
            cmd(ev.get("impl", "function"), ["${%s}" % nm.strip('"${}')] + list(ev.get("params", [])))
            st.append((k, i))
        elif k == "add_test":
            cmd("add_test", ev.get("args", ["NAME", nm, "COMMAND", "prog_%d" % i, "--flag"]))
        elif k == "option":
            cmd("option", [nm, ev.get("help", '"Help for %d"' % i)] + ([ev["default"]] if ev.get("default") else []))
        elif k == "set":
            cmd("set", [nm] + list(ev.get("values", ["val_%d" % i])))
        elif k == "generic":
            cmd(ev.get("cmd", "message"), ev.get("args", ["STATUS", '"text %d"' % i]))
        elif k == "cmake_parse_arguments":
            if ev.get("argv") is not None:      # the PARSE_ARGV signature
                cmd("cmake_parse_arguments", ["PARSE_ARGV", str(ev["argv"]), "ARG_%d" % i, '""', '""', '""'])
            else:
                cmd("cmake_parse_arguments", ["ARG_%d" % i, '""', '""', '""', "${ARGN}"])
        elif k == "comment":
            out.append(("comment", ev.get("text", COMMENT_SHAPES[ev.get("shape", 0) % len(COMMENT_SHAPES)])))
        elif k == "module":
            out.append(("doc", list(ev.get("doctext", [])), ev.get("name", "")))
        else:
            raise common.HarnessFault(f"unknown event kind {k}")
    if trailing_dangling:
        out.append(("doc", ["Dangling at end of file."], None))
    return out


# ---------------------------------------------------------------- rendering

DEFAULT_LAYOUT = {"doc_indent": "", "cmd_indent": "", "arg_sep": " ", "after_open": "", "before_close": "",
                  "between": "\n", "doc_cmd": "\n", "eol": "\n", "head": "", "tail": "\n", "leader": True}


def render_doc(lines, module_name, indent="", leader=True, module_gap=" ", inline_closer=False):
    first = "#[[[" if module_name is None else ("#[[[" + module_gap + "@module" + (" " + module_name if module_name else ""))
    body = []
    for l in lines:
        if leader and l.startswith("<nospace>"):       # this line is written without the optional space after '#'
            body.append(indent + "#" + l[len("<nospace>"):])
        elif leader:
            body.append(indent + ("# " + l if l != "" else "#"))
        else:
            body.append(indent + l)
    if inline_closer and body and body[-1].strip() not in ("", "#"):
        # the terminator shares the line with the last sentence (`# last words #]]`)
        return "\n".join([first] + body[:-1] + [body[-1] + " #]]"])
    return "\n".join([first] + body + [indent + "#]]"])


def render_args(args, sep=" "):
    parts = []
    for a in args:
        if isinstance(a, (list, tuple)):
            parts.append("(" + render_args(a, sep) + ")")
        else:
            parts.append(a)
    return sep.join(parts)


def render(its, layout=None, gaps=None, over=None):
    """gaps: optional dict {gap_index: filler}; gap indices are positions in the flat token list produced here
    (see token_gaps) - used by C04 to deviate single gaps from the default layout.
    over: optional dict {token_index: text} replacing single tokens (one doccomment re-indented, one command name
    respelled)."""
    lay = dict(DEFAULT_LAYOUT)
    if layout:
        lay.update(layout)
    toks, kinds = flat_tokens(its, lay)
    for k, v in (over or {}).items():
        toks[k] = v
    out = [lay["head"]]
    for n, t in enumerate(toks):
        out.append(t)
        if n + 1 < len(toks):
            g = default_gap(kinds[n], kinds[n + 1], lay)
            if gaps and n in gaps:
                g = gaps[n]
            out.append(g)
    out.append(lay["tail"])
    text = "".join(out)
    if lay["eol"] != "\n":
        text = text.replace("\n", lay["eol"])
    return text


def flat_tokens(its, lay):
    toks, kinds = [], []
    for it in its:
        if it[0] == "doc":
            toks.append(render_doc(it[1], it[2], lay["doc_indent"], lay["leader"], lay.get("module_gap", " "),
                                   lay.get("inline_closer", False)))
            kinds.append("doc" if it[2] is None else "moddoc")
        elif it[0] == "comment":
            toks.append(it[1])
            kinds.append("comment")
        else:
            toks.append(it[1]); kinds.append("id")
            toks.append("("); kinds.append("(")
            _flat_args(it[2], toks, kinds)
            toks.append(")"); kinds.append(")")
    return toks, kinds


def _flat_args(args, toks, kinds):
    for a in args:
        if isinstance(a, (list, tuple)):
            toks.append("("); kinds.append("((")
            _flat_args(a, toks, kinds)
            toks.append(")"); kinds.append("))")
        else:
            toks.append(a); kinds.append("arg")


def default_gap(a, b, lay):
    if a == "id":
        return ""
    if a in ("(", "(("):
        return lay["after_open"]
    if b in (")", "))"):
        return lay["before_close"]
    if a in ("arg", "))") and b in ("arg", "(("):
        return lay["arg_sep"]
    if a in ("doc",):
        if b == "id":
            return lay["doc_cmd"] + lay["cmd_indent"]
        return lay["between"] + lay["doc_indent"]
    if a == "comment":
        # a line comment must be ended by a newline; bracket comments need none but get one by default
        return "\n" + (lay["doc_indent"] if b in ("doc", "moddoc") else lay["cmd_indent"])
    # after ")" of a command or after a module doccomment
    nxt = lay["doc_indent"] if b in ("doc", "moddoc") else (lay["cmd_indent"] if b == "id" else "")
    return lay["between"] + nxt


def text_of(events, layout=None, case="lower", trailing_dangling=False):
    return render(items(close(events), case, trailing_dangling), layout)
