"""Abstract directory trees, the reference walk of C13/C14/C15, and observers of an output tree."""
import itertools
import os
import re

from . import common, fsbox, pipeline, rstobs

DIRNAMES = ["b", "lib.cmake", ".ci", "a-1"]      # a directory named like a CMake file, a hidden directory      # the second one is a *directory* named like a CMake file
CONTENT = {
    "empty": [],
    "txt": ["n.txt"],
    "one": ["a.cmake"],
    "two": ["a.cmake", "b.cmake"],
    "mixedcase": ["a.cmake", "B.CMake"],
    "mixedcase_c": ["a.cmake", "B.CMake", "n.c", "m.MD"],     # extensions that sort between 'CMake' and 'cmake' 
    "dots": ["x.y-z.cmake", "n.txt"],
    "nodot": ["a.cmake", "cmake"],
    "stemorder": ["a.cmake", "a-b.cmake"],
    "cmakeinname": ["a.cmake", "a.cmake-3.cmake"],     # '.cmake' occurs in front of the real extension
    "dotfile": [".defaults.cmake"],
    "upperonly": ["B.CMake", "n.txt"],
    "casepair": ["a.cmake", "Main.cmake", "main.cmake"],     # stems that differ only in letter case
    "dotcmake": ["a.cmake", ".cmake", "..cmake"],            # nothing in front of the extension      # the only CMake file has a mixed-case extension
    "dotonly": [".cmake", "n.txt"],          # the directory's only *.cmake entry has no base name: it counts for auto-exclusion, gets no page
    "templates": ["a.cmake", "Pkg.cmake.in", "gcc.cmake.orig", "b.cmake_"],    # '.cmake' is not the extension: no CMake files
    "formfeed": ["a.cmake", "ff.cmake"],       # ff.cmake's doccomment holds FF and LS characters
    "indexfile": ["a.cmake", "index.cmake"],    # its page has the path of the directory index (known finding K4)
    "indexfile_renamed": ["a.cmake", "index_.cmake"],      # 'a-b.cmake' < 'a.cmake' but 'a' < 'a-b'

}


def is_cmake(name):
    # a file whose whole name is the extension has no base name: it is no CMake module (F15, like a file named 'cmake')
    return name.lower().endswith(".cmake") and name.lower() != ".cmake"


def shapes(max_nodes, max_depth):
    """rooted trees as parent arrays (node 0 = root), canonical (children appended in order), depth = edges"""
    out = []

    def rec(parents, depths):
        out.append(list(parents))
        if len(parents) >= max_nodes:
            return
        # attach the new node only to the last node at each depth on the rightmost path (canonical growth)
        last = len(parents) - 1
        path = []
        n = last
        while n != -1:
            path.append(n)
            n = parents[n]
        for p in path:
            if depths[p] + 1 <= max_depth:
                rec(parents + [p], depths + [depths[p] + 1])

    rec([-1], [0])
    # dedupe isomorphic ordered trees is unnecessary here: siblings get different names anyway
    return out


class Tree:
    """nodes: list of (parent, name, [file names])"""

    def __init__(self, parents, contents, names=None):
        self.parents = parents
        self.contents = contents
        names = names or common.rot(DIRNAMES)
        self.names = ["in"]
        count = {}
        for i in range(1, len(parents)):
            k = count.get(parents[i], 0)
            count[parents[i]] = k + 1
            self.names.append(names[k % len(names)])

    def rel(self, i):
        parts = []
        while i != 0:
            parts.append(self.names[i])
            i = self.parents[i]
        return "/".join(reversed(parts)) or "."

    def children(self, i):
        return [j for j, p in enumerate(self.parents) if p == i]

    def files(self, i):
        c = self.contents[i]
        return list(CONTENT[c]) if isinstance(c, str) else list(c)

    def spec(self, base="in"):
        s = {}
        for i in range(len(self.parents)):
            d = base if i == 0 else base + "/" + self.rel(i)
            s[d] = None
            for f in self.files(i):
                # the content depends on the base name only: equally named files in different directories are
                # byte-identical (vendored copies)
                s[d + "/" + f] = fsbox.cmake_content(f) if ".cmake" in f.lower() or f == "cmake" else "not cmake\n"
        return s

    def describe(self):
        return {self.rel(i): self.files(i) for i in range(len(self.parents))}


def reference_walk(tree, recursive, auto, excluded=lambda rel, isdir: False):
    """{relative dir: [processed cmake file names]} per the statements of C13/C15"""
    out = {}

    def visit(i):
        rel = tree.rel(i)
        fs = sorted(f for f in tree.files(i) if is_cmake(f) and not excluded(_join(rel, f), False))
        out[rel] = fs
        if not recursive:
            return
        for j in tree.children(i):
            rj = tree.rel(j)
            if excluded(rj, True):
                continue
            if auto and not any(f.endswith(".cmake") for f in tree.files(j)):
                continue
            visit(j)

    visit(0)
    return out


def _join(rel, f):
    return f if rel == "." else rel + "/" + f


def stem(name):
    return ".".join(name.split(".")[:-1])


def expected_files(walk):
    exp = set()
    for rel, fs in walk.items():
        exp.add(_join(rel, "index.rst"))
        for f in fs:
            exp.add(_join(rel, stem(f) + ".rst"))
    return exp


def strip_identity(page_text):
    """a page without its title frame and module name (the path-derived parts)"""
    lines = page_text.split("\n")
    nb = [i for i, l in enumerate(lines) if l.strip()]
    drop = set(nb[:3])
    out = []
    for i, l in enumerate(lines):
        if i in drop:
            continue
        if l.startswith(".. module::"):
            out.append(".. module::")
            continue
        out.append(l)
    return "\n".join(out)


_alone = {}


def page_alone(content):
    k = common.digest(content)
    if k not in _alone:
        r = pipeline.document_text(content)
        _alone[k] = strip_identity(r["page"]) if r["page"] is not None else None
    return _alone[k]


def closure_messages(files, recursive, prefix, sep="."):
    """C14: pure closure invariant over an output tree given as {relpath: text}"""
    msgs = []
    idx = {k: v for k, v in files.items() if os.path.basename(k) == "index.rst"}
    pages = {k for k in files if k.endswith(".rst") and os.path.basename(k) != "index.rst"}
    if "index.rst" not in idx:
        return [f"top-index: no index.rst at the top of the output directory: {sorted(files)[:6]}"]
    reach = set()
    todo = ["index.rst"]
    while todo:
        ix = todo.pop()
        if ix in reach:
            continue
        reach.add(ix)
        d = os.path.dirname(ix)
        page, tts, ents = fsbox.toctree_entries(idx[ix])
        if len(tts) != 1:
            msgs.append(f"toctree: {ix} has {len(tts)} toctree directives")
            continue
        if len(set(ents)) != len(ents):
            msgs.append(f"duplicate: {ix} lists an entry twice: {ents}")
        here_pages = {os.path.basename(p)[:-4] for p in pages if os.path.dirname(p) == d}
        listed_pages = set()
        for e in ents:
            if e.endswith("/index.rst"):
                if not recursive:
                    msgs.append(f"sub-index: {ix} lists {e} although the run is not recursive")
                tgt = os.path.normpath(os.path.join(d, e))
                if tgt not in idx:
                    msgs.append(f"dangling: {ix} lists {e} but {tgt} was not generated")
                else:
                    todo.append(tgt)
            else:
                listed_pages.add(e)
                tgt = os.path.normpath(os.path.join(d, e + ".rst"))
                if tgt not in files:
                    msgs.append(f"dangling: {ix} lists {e} but {tgt} was not generated")
                else:
                    reach.add(tgt)
        if listed_pages != here_pages:
            msgs.append(f"file-entries: {ix} lists pages {sorted(listed_pages)} but its directory holds {sorted(here_pages)}")
        # title
        t = page.title
        rel = d.split("/") if d else []
        if t is None:
            msgs.append(f"title: {ix} has no framed title")
        elif not rel:
            if prefix is not None and t != prefix:
                msgs.append(f"title: top index is titled {t!r}, expected the prefix {prefix!r}")
        elif prefix is not None:
            want = "\0".join(rel)
            if not t.startswith(prefix + sep) or t[len(prefix + sep):].replace(sep, "\0").replace("/", "\0") != \
                    want.replace(sep, "\0").replace("/", "\0"):
                msgs.append(f"title: {ix} is titled {t!r}, expected prefix {prefix!r} + the directory {d!r}")
    for k in sorted(set(files) - reach):
        if k.endswith(".rst"):
            msgs.append(f"unreachable: {k} is not reachable from the top index.rst")
    return msgs


def k4_known_shape(tree, files):
    """K4 as recorded: in every output directory that mirrors a directory holding index.cmake, index.rst *is* that
    module's page (the page overwrote the directory index).  Any other outcome on such a tree - the index winning, the
    page missing - is not the recorded finding."""
    for i in range(len(tree.parents)):
        if "index.cmake" not in tree.files(i):
            continue
        f = files.get(_join(tree.rel(i), "index.rst"))
        if f is None:
            continue
        if ".. module::" not in f or "toctree::" in f:
            return False
    return True
