"""Sandbox trees, listing-order control, snapshots and an in-process driver of the cminx command line."""
import hashlib
import io
import os
import shutil
import sys

from . import common, pipeline


def cmake_content(tag):
    """a small documented module whose text names its tag (so pages can be told apart)"""
    t = tag.replace("/", "_").replace(".", "_").replace("-", "_")
    if tag.startswith("ff"):
        # a doccomment with characters that str.splitlines() treats as line breaks (CMake and reST do not)
        return (f"#[[[\n# Page break\x0c here, LS\u2028 there.\n#]]\nfunction(fn_{t} arg)\nendfunction()\n")
    return (f"#[[[\n# Doc of function in {tag}.\n#]]\nfunction(fn_{t} arg)\n  cmake_parse_arguments(A \"\" \"\" \"\" ${{ARGN}})\n"
            f"endfunction()\n\nmacro(undocumented_{t})\nendmacro()\n")


class Schedule:
    """listing order per directory: 'sorted' (default), 'reversed', or {relpath: [names in order]}"""

    def __init__(self, mode="sorted", table=None, root=None):
        self.mode, self.table, self.root = mode, table or {}, root

    def order(self, dirpath, names):
        names = sorted(names)
        rel = os.path.relpath(dirpath, self.root) if self.root else dirpath
        if rel in self.table:
            want = self.table[rel]
            rank = {n: i for i, n in enumerate(want)}
            return sorted(names, key=lambda n: (rank.get(n, len(rank)), n))
        if self.mode == "reversed":
            return names[::-1]
        return names


class Box:
    def __init__(self, tag="box"):
        self.root = os.path.join(pipeline.tmpdir(), f"{tag}-{os.getpid()}-{id(self) & 0xffff}")
        shutil.rmtree(self.root, ignore_errors=True)
        for d in ("work", "home", "cfg", "stale-pwd"):
            os.makedirs(os.path.join(self.root, d))

    def path(self, *p):
        return os.path.join(self.root, *p)

    def build(self, spec, base="work"):
        """spec: {relative path: content str | None (directory)}"""
        for rel, content in spec.items():
            p = self.path(base, rel)
            if content is None:
                os.makedirs(p, exist_ok=True)
            else:
                os.makedirs(os.path.dirname(p), exist_ok=True)
                with open(p, "w", encoding="utf-8") as f:
                    f.write(content)

    def cleanup(self):
        shutil.rmtree(self.root, ignore_errors=True)

    # ---- running the CLI in-process
    def run(self, argv, cwd="work", schedule=None, user_config=None, env=None):
        """returns dict(status, stdout, stderr, exc)"""
        common.bind_impl()
        import cminx
        cfgdir = self.path("cfg")
        ucfg = os.path.join(cfgdir, "config.yaml")
        if user_config is not None:
            with open(ucfg, "w") as f:
                f.write(user_config)
        elif os.path.exists(ucfg):
            os.remove(ucfg)
        saved_env = dict(os.environ)
        # PWD is an input, too: a shell would keep it equal to the working directory, a process started with cwd=... or
        # after os.chdir() does not.  It points at a decoy directory inside the sandbox (so that anything resolved against
        # it is seen by the snapshots and never lands in the harness's own directory).
        decoy = self.path("stale-pwd")
        os.environ.update({"CMINXDIR": cfgdir, "HOME": self.path("home"), "XDG_CONFIG_HOME": self.path("home", ".config"),
                           "PWD": decoy, "OLDPWD": decoy})
        if env:
            os.environ.update(env)
        import tempfile
        saved_tempdir = tempfile.tempdir
        tempfile.tempdir = None          # (so that a TMPDIR given in env is honoured by this in-process run)
        saved_cwd = os.getcwd()
        os.chdir(self.path(cwd) if not os.path.isabs(cwd) else cwd)
        real_walk, real_scandir = os.walk, os.scandir
        if schedule is not None:
            def walk(top, topdown=True, onerror=None, followlinks=False):
                for root, dirs, files in real_walk(top, topdown, onerror, followlinks):
                    dirs[:] = schedule.order(root, dirs)
                    files[:] = schedule.order(root, files)
                    yield root, dirs, files

            class _Scan:
                def __init__(self, path):
                    with real_scandir(path) as it:
                        ents = {e.name: e for e in it}
                    self.ents = iter([ents[n] for n in schedule.order(path, list(ents))])

                def __iter__(self):
                    return self

                def __next__(self):
                    return next(self.ents)

                def __enter__(self):
                    return self

                def __exit__(self, *a):
                    return False

                def close(self):
                    pass

            os.walk, os.scandir = walk, (lambda path=".": _Scan(path))
        out, err = io.StringIO(), io.StringIO()
        so, se = sys.stdout, sys.stderr
        sys.stdout, sys.stderr = out, err
        status, exc = 0, None
        try:
            cminx.main(list(argv))
        except SystemExit as e:
            status = e.code if isinstance(e.code, int) else (0 if e.code is None else 1)
        except BaseException as e:  # an uncaught exception ends the real CLI with status 1
            if isinstance(e, (KeyboardInterrupt, MemoryError)):
                raise
            status, exc = 1, f"{type(e).__name__}: {e}"[:300]
        finally:
            sys.stdout, sys.stderr = so, se
            os.walk, os.scandir = real_walk, real_scandir
            os.chdir(saved_cwd)
            tempfile.tempdir = saved_tempdir
            os.environ.clear()
            os.environ.update(saved_env)
            import logging
            logging.getLogger("cminx").setLevel(logging.CRITICAL)
        return {"status": status, "stdout": out.getvalue(), "stderr": err.getvalue(), "exc": exc}

    # ---- snapshots
    def snapshot(self, sub=""):
        """{relative path: (type, size, sha256, mtime_ns)} of everything below root/sub"""
        base = self.path(sub) if sub else self.root
        snap = {}
        for root, dirs, files in os.walk(base):
            for d in dirs:
                p = os.path.join(root, d)
                snap[os.path.relpath(p, base)] = ("dir", 0, "", 0)
            for f in files:
                p = os.path.join(root, f)
                st = os.stat(p)
                with open(p, "rb") as fh:
                    h = hashlib.sha256(fh.read()).hexdigest()[:16]
                snap[os.path.relpath(p, base)] = ("file", st.st_size, h, st.st_mtime_ns)
        return snap

    def files(self, sub):
        base = self.path(sub)
        out = {}
        for root, dirs, files in os.walk(base):
            for f in files:
                p = os.path.join(root, f)
                try:
                    with open(p, encoding="utf-8") as fh:
                        out[os.path.relpath(p, base)] = fh.read()
                except (OSError, UnicodeDecodeError) as e:      # a dangling link, a file that vanished, bytes that are no text
                    out[os.path.relpath(p, base)] = f"<unreadable: {type(e).__name__}>"
        return out

    def page(self, sub, name):
        """text of one generated file below `sub`; '' (never an exception) if it is not there - the caller's comparison then
        fails as a violation instead of the harness crashing"""
        p = self.path(sub, name)
        try:
            with open(p, encoding="utf-8") as fh:
                return fh.read()
        except (OSError, UnicodeDecodeError):
            return ""


def toctree_entries(index_text):
    """entries of the toctree of an index page"""
    from . import rstobs
    page = rstobs.Page(index_text)
    tts = [b for b in page.blocks if b.name == "toctree"]
    ents = []
    for t in tts:
        ents += [l.strip() for l in t.own_text() if l.strip()]
    return page, tts, ents
