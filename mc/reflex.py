"""Reference CMake tokenizer/parser written from cmake-language(7) - independent of CMinx's grammar.

scan(text)  -> tokens [(kind, start, end)] with kinds: space newline identifier lparen rparen unquoted quoted bracket
               line_comment bracket_comment; raises LexError on lexically invalid input.
parse(text) -> [(name, [argument values], line)] ; '(' and ')' inside an argument list are separate arguments, quotes
               and bracket delimiters are removed, line continuations inside quoted arguments are removed, escape
               sequences are left unevaluated - the representation `cmake --trace --trace-format=json-v1` prints.
Legacy unquoted arguments (embedded quotes, $(...)) are rejected: the properties exclude them and nothing generates
them.
"""
import re


class LexError(Exception):
    def __init__(self, msg, pos):
        super().__init__(f"{msg} at offset {pos}")
        self.pos = pos
        self.msg = msg


BR_OPEN = re.compile(r"\[(=*)\[")
IDENT = re.compile(r"[A-Za-z_][A-Za-z0-9_]*")
SPACE = re.compile(r"[ \t]+")
NEWLINE = re.compile(r"\r?\n|\r")


def _bracket_close(text, start, eqs):
    close = "]" + eqs + "]"
    j = text.find(close, start)
    return j


def scan(text):
    toks = []
    i, n = 0, len(text)
    if text.startswith("\ufeff"):      # a UTF-8 byte order mark at the very start is permitted and is not part of the text
        i = 1
    while i < n:
        c = text[i]
        m = SPACE.match(text, i)
        if m:
            toks.append(("space", i, m.end())); i = m.end(); continue
        m = NEWLINE.match(text, i)
        if m:
            toks.append(("newline", i, m.end())); i = m.end(); continue
        if c == "#":
            m = BR_OPEN.match(text, i + 1)
            if m:
                j = _bracket_close(text, m.end(), m.group(1))
                if j < 0:
                    raise LexError("unterminated bracket comment", i)
                end = j + 2 + len(m.group(1))
                toks.append(("bracket_comment", i, end)); i = end; continue
            j = i
            while j < n and text[j] not in "\r\n":
                j += 1
            toks.append(("line_comment", i, j)); i = j; continue
        if c == "(":
            toks.append(("lparen", i, i + 1)); i += 1; continue
        if c == ")":
            toks.append(("rparen", i, i + 1)); i += 1; continue
        if c == '"':
            j = i + 1
            while True:
                if j >= n:
                    raise LexError("unterminated quoted argument", i)
                d = text[j]
                if d == '"':
                    break
                if d == "\\":
                    if j + 1 >= n:
                        raise LexError("backslash at end of file", j)
                    e = text[j + 1]
                    if e == "\r" and j + 2 < n and text[j + 2] == "\n":
                        j += 3; continue
                    if e in "\r\n":
                        j += 2; continue
                    if e.isascii() and e.isalnum() and e not in "tnr":
                        raise LexError("invalid escape sequence \\" + e, j)
                    j += 2; continue
                j += 1
            toks.append(("quoted", i, j + 1)); i = j + 1; continue
        if c == "[":
            m = BR_OPEN.match(text, i)
            if m:
                j = _bracket_close(text, m.end(), m.group(1))
                if j < 0:
                    raise LexError("unterminated bracket argument", i)
                end = j + 2 + len(m.group(1))
                toks.append(("bracket", i, end)); i = end; continue
        # identifier or unquoted argument
        j = i
        while j < n:
            d = text[j]
            if d in " \t\r\n()#\"":
                break
            if d == "\\":
                if j + 1 >= n:
                    raise LexError("backslash at end of file", j)
                e = text[j + 1]
                if e in "\r\n":
                    raise LexError("backslash-newline in unquoted argument", j)
                if e.isascii() and e.isalnum() and e not in "tnr":
                    raise LexError("invalid escape sequence \\" + e, j)
                j += 2; continue
            j += 1
        if j == i:
            raise LexError(f"unexpected character {c!r}", i)
        if j < n and text[j] == '"':
            raise LexError("legacy unquoted argument with embedded quote", i)
        word = text[i:j]
        if "$(" in word:
            raise LexError("legacy unquoted argument with $()", i)
        kind = "identifier" if IDENT.fullmatch(word) else "unquoted"
        toks.append((kind, i, j)); i = j
    return toks


def value(kind, s):
    if kind == "quoted":
        body = s[1:-1]
        return re.sub(r"\\(\r\n|\n|\r)", "", body)
    if kind == "bracket":
        m = BR_OPEN.match(s)
        body = s[m.end(): len(s) - (2 + len(m.group(1)))]
        if body.startswith("\r\n"):
            body = body[2:]
        elif body.startswith("\n"):
            body = body[1:]
        return body
    return s


def parse(text, lenient=False):
    """lenient: accept an argument that starts directly after a quoted argument (`"a""b"`, `"a"b`): CMake itself accepts
    that with a developer warning and sees two arguments (validated against cmake by C04 before it is used)"""
    toks = scan(text)
    cmds = []
    i, n = 0, len(toks)
    line = 1
    at_line_start = True   # a command may only start when no other command was seen on this line
    seen_cmd_on_line = False
    comment_before = False   # CMake accepts a bracket comment after a command on its line, not before one
    while i < n:
        k, a, b = toks[i]
        if k == "newline":
            line += 1; seen_cmd_on_line = False; comment_before = False; i += 1; continue
        if k in ("space", "bracket_comment"):
            line += text.count("\n", a, b)
            if k == "bracket_comment":
                comment_before = True
            i += 1; continue
        if k == "line_comment":
            i += 1; continue
        if k != "identifier":
            raise LexError(f"expected a command name, got {k} {text[a:b]!r}", a)
        name = text[a:b]
        cline = line
        i += 1
        while i < n and toks[i][0] == "space":
            i += 1
        if i >= n or toks[i][0] != "lparen":
            raise LexError(f"expected '(' after command name {name!r}", b)
        # a complete command that merely shares its line with the previous one / with a bracket comment
        if seen_cmd_on_line:
            raise LexError("expected a newline after a command invocation", a)
        if comment_before:
            raise LexError("expected a newline after a bracket comment", a)
        depth = 1
        i += 1
        args = []
        prev_arg_end = None
        prev_kind = None
        while depth > 0:
            if i >= n:
                raise LexError(f"unterminated argument list of {name!r}", a)
            k2, a2, b2 = toks[i]
            if k2 == "lparen":
                depth += 1; args.append("("); prev_arg_end = None
            elif k2 == "rparen":
                depth -= 1
                if depth > 0:
                    args.append(")")
                prev_arg_end = None
            elif k2 in ("identifier", "unquoted", "quoted", "bracket"):
                if prev_arg_end == a2 and not (lenient and prev_kind == "quoted" and k2 in ("identifier", "unquoted", "quoted")):
                    raise LexError("arguments not separated", a2)
                args.append(value(k2, text[a2:b2])); prev_arg_end = b2; prev_kind = k2
                line += text.count("\n", a2, b2)
            elif k2 == "newline":
                line += 1
            elif k2 in ("space", "bracket_comment"):
                line += text.count("\n", a2, b2)
            i += 1
        cmds.append((name, args, cline))
        seen_cmd_on_line = True
    return cmds


def valid(text):
    try:
        parse(text)
        return True
    except LexError:
        return False


def outside_positions(text):
    """character offsets that lie outside comments and outside the interior of quoted/bracket arguments
    (token boundaries of every non-comment token are included)"""
    pos = set()
    for k, a, b in scan(text):
        if k in ("line_comment", "bracket_comment"):
            continue
        if k in ("quoted", "bracket"):
            pos.add(a)
        else:
            pos.update(range(a, b))
    pos.add(len(text))
    return sorted(pos)
