"""Shared plumbing: binding to the implementation under test, seeds, the worker pool, digests."""
import hashlib
import json
import multiprocessing
import os
import sys
import warnings

VERIF_ROOT = os.path.dirname(os.path.dirname(os.path.abspath(__file__)))
REPO_ROOT = os.environ.get("CMINX_REPO", "/repo")
REPO_SRC = os.environ.get("CMINX_SRC", os.path.join(REPO_ROOT, "src"))
PYTHON = "/venv/bin/python"
NPROC = int(os.environ.get("VERIF_NPROC", str(min(16, os.cpu_count() or 1))))

_bound = False


def bind_impl():
    """Make `import cminx` resolve to the working tree and prove it."""
    global _bound
    if _bound:
        return
    warnings.filterwarnings("ignore")
    if REPO_SRC in sys.path:
        sys.path.remove(REPO_SRC)
    sys.path.insert(0, REPO_SRC)
    import cminx  # noqa
    real = os.path.realpath(cminx.__file__)
    if not real.startswith(os.path.realpath(REPO_SRC) + os.sep):
        raise HarnessFault(f"cminx imported from {real}, expected below {REPO_SRC}")
    import logging
    logging.getLogger("cminx").setLevel(logging.CRITICAL)
    _bound = True


class HarnessFault(Exception):
    """The harness (generator, reference, environment) is wrong - never reported as a violation."""


def seed():
    try:
        return int(os.environ.get("VERIF_SEED", "0"))
    except ValueError:
        return 0


def rot(seq, k=None):
    """Rotate a pool by the seed: same set, different spelling order."""
    seq = list(seq)
    if not seq:
        return seq
    k = seed() if k is None else k
    k %= len(seq)
    return seq[k:] + seq[:k]


def digest(obj):
    if isinstance(obj, bytes):
        data = obj
    elif isinstance(obj, str):
        data = obj.encode("utf-8", "surrogatepass")
    else:
        data = json.dumps(obj, sort_keys=True, default=str).encode("utf-8", "surrogatepass")
    return hashlib.sha256(data).hexdigest()[:16]


# ------------------------------------------------------------------ worker pool

_POOL = None


def _init_worker():
    # Workers are forked after bind_impl(); keep their stdout quiet, CMinx logs/prints a lot.
    import signal
    signal.signal(signal.SIGINT, signal.SIG_IGN)


def pool():
    global _POOL
    if _POOL is None:
        ctx = multiprocessing.get_context("fork")
        _POOL = ctx.Pool(NPROC, initializer=_init_worker)
    return _POOL


def close_pool():
    global _POOL
    if _POOL is not None:
        _POOL.close()
        _POOL.join()
        _POOL = None


class _Chunk:
    """picklable: run fn over a chunk of items inside ONE child forked from the (pristine) pool worker.  Interpreter
    state that a case leaves behind (caches, module globals, class attributes) therefore never outlives its chunk, and
    the cases that ran before a given case are known exactly: the items of its chunk in front of it."""

    def __init__(self, fn):
        self.fn = fn

    def __call__(self, items):
        return in_fork(_run_all, self.fn, items)


def _run_all(fn, items):
    return [fn(x) for x in items]


def chunks_of(items, chunk):
    return [items[i:i + chunk] for i in range(0, len(items), chunk)]


def pmap(fn, items, chunk=None, isolate=False):
    """Ordered parallel map (results in generation order so output is reproducible).
    isolate: each chunk runs in its own forked child (see _Chunk)."""
    items = list(items)
    if not items:
        return []
    if chunk is None:
        chunk = max(1, min(256, len(items) // (NPROC * 8) or 1))
    if isolate:
        parts = chunks_of(items, chunk)
        if NPROC <= 1 or len(parts) < 2:
            res = [_Chunk(fn)(p) for p in parts]
        else:
            res = pool().map(_Chunk(fn), parts, chunksize=1)
        return [r for part in res for r in part]
    if NPROC <= 1 or len(items) < 4:
        return [fn(x) for x in items]
    return pool().map(fn, items, chunksize=chunk)


def pimap(fn, items, chunk=16):
    """Ordered lazy parallel map for very large work lists."""
    if NPROC <= 1:
        for x in items:
            yield fn(x)
        return
    yield from pool().imap(fn, items, chunksize=chunk)


class quiet:
    """Silence stdout/stderr of the code under test at the Python level and capture it."""

    def __enter__(self):
        import io
        self._o, self._e = sys.stdout, sys.stderr
        self.out, self.err = io.StringIO(), io.StringIO()
        sys.stdout, sys.stderr = self.out, self.err
        return self

    def __exit__(self, *a):
        sys.stdout, sys.stderr = self._o, self._e
        return False


def in_fork(fn, *args):
    """run fn(*args) in a forked child and return its (picklable) result: the child starts from this process's
    state - for C17 a process that has imported CMinx but never documented anything - so a history is exactly what
    the case says and a violation reproduces in a fresh process"""
    import pickle
    r, w = os.pipe()
    pid = os.fork()
    if pid == 0:
        code = 0
        try:
            os.close(r)
            try:
                data = pickle.dumps(("ok", fn(*args)))
            except BaseException as e:  # noqa
                import traceback
                data = pickle.dumps(("err", traceback.format_exc()))
            with os.fdopen(w, "wb") as f:
                f.write(data)
        finally:
            os._exit(code)
    os.close(w)
    with os.fdopen(r, "rb") as f:
        data = f.read()
    os.waitpid(pid, 0)
    if not data:
        raise HarnessFault("forked child died without a result")
    kind, val = pickle.loads(data)
    if kind == "err":
        raise HarnessFault("exception in forked child:\n" + val)
    return val
