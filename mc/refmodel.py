"""Reference semantics: abstract module + settings -> expected entries.

A direct transcription of the property statements (C02, C03, C08, C09, C11), not of the code: one explicit stack
of open blocks, a list of expected entries.  Implementation-only behaviour (log messages, blank lines, wording of
notes) is not modelled and never compared.
"""
import re

from . import cmakegen
from .cmakegen import DEF_KINDS, IMPL_KINDS, name_of, doc_lines

INCLUDE_KINDS = ("function", "macro", "cpp_class", "cpp_attr", "cpp_constructor", "cpp_member", "ct_add_test",
                 "add_test", "ct_add_section", "option")


def default_cfg():
    cfg = {"include_undocumented_" + k: True for k in INCLUDE_KINDS}
    cfg.update({"kwargs_doc_trigger_string": ":keyword", "function_parameter_name_strip_regex": "",
                "macro_parameter_name_strip_regex": "", "member_parameter_name_strip_regex": ""})
    return cfg


def flat_args(args):
    """arguments as written, compound arguments rendered with single spaces inside"""
    return cmakegen.render_args(args, " ")


def unquote_once(v):
    if len(v) >= 2 and v[0] == '"' and v[-1] == '"':
        return v[1:-1]
    return v


def expected(events, cfg=None):
    """returns (entries, model_stack) for the *closed* module; entries in source order.
    Each entry: dict(kind, sig, doc(list|[]), src(index), ...kind specific)."""
    c = default_cfg()
    if cfg:
        c.update(cfg)
    events = cmakegen.close(events)
    entries = []
    stack = []   # dicts: kind, idx, entry (or None), cls (class entry or None if hidden), marked
    for i, ev in enumerate(events):
        k = ev["k"]
        doc = doc_lines(ev, i) if ev.get("doc") else None
        has_doc = doc is not None
        nm = name_of(ev, i)
        dl = doc if has_doc else []

        def shown(kind):
            return has_doc or c["include_undocumented_" + kind]

        def innermost_class():
            for b in reversed(stack):
                if b["kind"] == "cpp_class":
                    return b
            return None

        if k in DEF_KINDS:
            entry = None
            if shown(k):
                rx = c[k + "_parameter_name_strip_regex"]
                params = [re.sub(rx, "", p) for p in ev.get("params", [])]
                entry = {"kind": k, "name": nm, "params": params, "doc": dl, "src": i,
                         "kwargs": has_doc and c["kwargs_doc_trigger_string"] in "\n".join(dl)}
                entries.append(entry)
            stack.append({"kind": k, "idx": i, "entry": entry})
        elif k == "close":
            b = stack.pop()
            if has_doc:     # a doccomment on the closing command: "every other command that carries a doccomment"
                cname = cmakegen.closer_for(b["kind"], events, b["idx"])
                entries.append({"kind": "generic", "name": cname, "sig": f"{cname}()", "doc": dl, "src": i})
        elif k in ("if", "foreach"):
            if has_doc:
                args = ev.get("args", ["COND_%d" % i]) if k == "if" else ["it_%d" % i, "a", "b"]
                entries.append({"kind": "generic", "name": k, "sig": f"{k}({flat_args(args)})", "doc": dl, "src": i})
            stack.append({"kind": k, "idx": i, "entry": None})
        elif k == "cpp_class":
            entry = None
            if shown("cpp_class"):
                entry = {"kind": "class", "name": nm, "sig": nm, "bases": list(ev.get("bases", [])), "doc": dl,
                         "src": i, "ctors": [], "methods": [], "attrs": [], "inner": []}
                entries.append(entry)
                outer = innermost_class()
                if outer is not None and outer["entry"] is not None:
                    outer["entry"]["inner"].append(nm)
            stack.append({"kind": k, "idx": i, "entry": entry})
        elif k == "cpp_attr":
            cls = innermost_class()
            if cls is not None and cls["entry"] is not None and shown("cpp_attr"):
                d = ev.get("default")
                cls["entry"]["attrs"].append({"name": nm, "has_value": d is not None, "value": d, "doc": dl, "src": i})
        elif k in ("cpp_member", "cpp_constructor"):
            cls = innermost_class()
            is_shown = cls is not None and cls["entry"] is not None and shown(k)
            if is_shown:
                rx = c["member_parameter_name_strip_regex"]
                params = [re.sub(rx, "", p) for p in ev.get("params", [])]
                types = list(ev.get("types", []))
                m = {"name": nm if k == "cpp_member" else ev.get("ctor", "CTOR"), "params": params, "types": types,
                     "macro": ev.get("impl", "function") == "macro", "doc": dl, "src": i}
                cls["entry"]["ctors" if k == "cpp_constructor" else "methods"].append(m)
            stack.append({"kind": k, "idx": i, "entry": None, "orphan_impl": not is_shown})
        elif k in ("ct_add_test", "ct_add_section"):
            if shown(k):
                args = ev.get("args")
                if args is None:
                    name, ef = nm, bool(ev.get("expectfail"))
                else:
                    name = args[args.index("NAME") + 1]
                    ef = "EXPECTFAIL" in args
                entries.append({"kind": "test" if k == "ct_add_test" else "section", "name": name,
                                "sig": f"{name}({'EXPECTFAIL' if ef else ''})", "doc": dl, "src": i})
                stack.append({"kind": k, "idx": i, "entry": None, "orphan_impl": False})
            else:
                stack.append({"kind": k, "idx": i, "entry": None, "orphan_impl": True})
        elif k == "add_test":
            if shown("add_test"):
                args = ev.get("args", ["NAME", nm, "COMMAND", "prog_%d" % i, "--flag"])
                if "NAME" in args:
                    p = args.index("NAME")
                    name = args[p + 1]
                    rest = args[:p] + args[p + 2:]
                else:       # add_test(<name> <command> [<arg>...]): an entry without a name that shows the arguments
                    name, rest = "", list(args)
                entries.append({"kind": "ctest", "name": name, "sig": f"{name}({' '.join(rest)})", "doc": dl, "src": i,
                                "args_list": list(rest)})
        elif k == "option":
            if shown("option"):
                entries.append({"kind": "option", "name": nm, "sig": nm, "doc": dl, "src": i,
                                "help": ev.get("help", '"Help for %d"' % i), "default": ev.get("default") or "OFF"})
        elif k == "set":
            if has_doc:
                vals = list(ev.get("values", ["val_%d" % i]))
                typ = "UNSET" if not vals else "str" if len(vals) == 1 else "list"
                val = None if not vals else unquote_once(vals[0]) if len(vals) == 1 else " ".join(vals)
                entries.append({"kind": "data", "name": nm, "sig": nm, "doc": dl, "src": i, "type": typ, "value": val})
        elif k == "generic":
            if has_doc:
                cmd = ev.get("cmd", "message")
                args = ev.get("args", ["STATUS", '"text %d"' % i])
                entries.append({"kind": "generic", "name": cmd, "sig": f"{cmd.lower()}({flat_args(args)})",
                                "doc": dl, "src": i,
                                # argument by argument (only without parenthesised arguments, which the observer's
                                # splitter does not group)
                                "args_flat": list(args) if all(isinstance(a, str) and "(" not in a and ")" not in a for a in args) else None})
        elif k == "cmake_parse_arguments":
            for b in reversed(stack):
                if b["kind"] in DEF_KINDS:
                    if b["entry"] is not None:
                        b["entry"]["kwargs"] = True
                    break
                if b["kind"] in IMPL_KINDS:
                    break
        elif k in ("comment", "module"):
            pass
        else:
            raise ValueError(k)
    for e in entries:
        if e["kind"] in DEF_KINDS:
            ps = list(e["params"]) + (["**kwargs"] if e["kwargs"] else [])
            e["sig"] = f"{e['name']}({' '.join(ps)})"
    return entries


def member_sig(m):
    return f"{m['name']}({', '.join(m['params'])}{'[, ...]' if 'args' in m['types'] else ''})"


def orphan_impls(events, cfg=None):
    """indices of member/test declarations that are hidden under cfg (their implementing definition becomes an
    ordinary undocumented definition about which C08 is silent)"""
    c = default_cfg()
    if cfg:
        c.update(cfg)
    return c


# ---------------------------------------------------------------- comparison with observed abstract entries

def compare(exp, obs, check_doc=True):
    """exp from expected(), obs = [rstobs.abstract_entry(b)...]; returns list of messages"""
    from . import rstobs
    msgs = []
    if len(exp) != len(obs):
        msgs.append(f"entries: expected {len(exp)} {[(e['kind'], e['name']) for e in exp]} "
                    f"observed {len(obs)} {[(o['kind'], o['sig']) for o in obs]}")
        return msgs
    for n, (e, o) in enumerate(zip(exp, obs)):
        where = f"entry {n} ({e['kind']} {e['name']})"
        if e["kind"] != o["kind"]:
            msgs.append(f"kind: {where} rendered as {o['kind']}")
            continue
        if rstobs.norm_ws(e["sig"]) != o["sig"]:
            msgs.append(f"signature: {where} expected {e['sig']!r} observed {o['sig']!r}")
        elif e["kind"] == "ctest" and "rawsig" in o and "args_list" in e:
            got = rstobs.split_sig(o["rawsig"])[1]
            if got is not None and got != e["args_list"]:
                msgs.append(f"signature: {where} arguments as written {e['args_list']!r}, shown {got!r}")
        elif e["kind"] == "generic" and "rawsig" in o and e.get("args_flat") is not None:
            got = rstobs.split_sig(o["rawsig"])[1]
            if got is not None and got != e["args_flat"]:
                msgs.append(f"signature: {where} arguments as written {e['args_flat']!r}, shown {got!r}")
        elif e["kind"] in DEF_KINDS and "rawsig" in o:
            # parameter by parameter: whitespace inside a quoted or bracket parameter belongs to the parameter
            want = [p for p in list(e["params"]) + (["**kwargs"] if e["kwargs"] else []) if p != ""]
            got = rstobs.split_sig(o["rawsig"])[1]
            # (a strip pattern may remove the quotes around a parameter with inner blanks: such a parameter cannot be
            # told from several in the rendered line; the whole-line comparison above still applies)
            bare_blank = any(re.search(r"\s", p) and p[:1] not in ('"', "[") for p in want)
            if got is not None and got != want and not bare_blank:
                msgs.append(f"signature: {where} parameters as written {want!r}, shown {got!r}")
        if check_doc and rstobs.strip_blank(e["doc"]) and not rstobs.contains_run(o["doc"], rstobs.strip_blank(e["doc"])):
            msgs.append(f"doc: {where} doc text missing from its block: {o['doc']!r}")
        if e["kind"] == "class":
            if e["bases"] != o["bases"]:
                msgs.append(f"bases: {where} expected {e['bases']} observed {o['bases']}")
            if e["inner"] != o["inner"]:
                msgs.append(f"inner: {where} expected inner classes {e['inner']} observed {o['inner']}")
            for grp in ("ctors", "methods"):
                es, os_ = e[grp], o[grp]
                if [member_sig(m) for m in es] != [m["sig"] for m in os_]:
                    msgs.append(f"members: {where} {grp} expected {[member_sig(m) for m in es]} "
                                f"observed {[m['sig'] for m in os_]}")
                    continue
                for m, om in zip(es, os_):
                    if m["macro"] != om["macro"]:
                        msgs.append(f"member-macro: {where} {m['name']} macro note expected {m['macro']}")
                    tf = [(k, v) for k, v in om["fields"] if k.startswith("type ")]
                    # a parameter whose type the doccomment states itself is not judged
                    own = "\n".join(m["doc"])
                    et = [(f"type {p}", t) for p, t in zip(m["params"], m["types"]) if f":type {p}:" not in own]
                    tf = [(k, v) for k, v in tf if f":{k}:" not in own]
                    if tf != et:
                        msgs.append(f"member-types: {where} {m['name']} expected {et} observed {tf}")
                    if check_doc and rstobs.strip_blank(m["doc"]) and \
                            not rstobs.contains_run(om["doc"], rstobs.strip_blank(m["doc"])):
                        msgs.append(f"doc: {where} member {m['name']} doc text missing")
            ea = [(a["name"], a["has_value"], a["value"]) for a in e["attrs"]]
            oa = [(a["name"], a["has_value"], a["value"] if a["has_value"] else None) for a in o["attrs"]]
            if ea != oa:
                msgs.append(f"attrs: {where} expected {ea} observed {oa}")
        if e["kind"] == "data":
            f = dict(o["fields"])
            if f.get("type") != e["type"]:
                msgs.append(f"var-type: {where} expected {e['type']} observed {f.get('type')}")
            if e["value"] is not None and f.get("Default value") != e["value"]:
                msgs.append(f"var-default: {where} expected {e['value']!r} observed {f.get('Default value')!r}")
        if e["kind"] == "option":
            f = dict(o["fields"])
            # the help text may be shown with or without its surrounding quotes
            if f.get("type") != "bool" or f.get("Default value") != e["default"] or \
                    unquote_once(f.get("Help text") or "") != unquote_once(e["help"]):
                msgs.append(f"option-fields: {where} expected help={e['help']!r} default={e['default']!r} bool; "
                            f"observed {o['fields']}")
    return msgs
