"""Driving the real lexer -> parser -> aggregator -> writer pipeline on a text."""
import copy
import os

from . import common

_TMPDIR = None
_BASE = None


def tmpdir():
    """per-process scratch directory below the run directory (removed by the runner at exit)"""
    global _TMPDIR
    root = os.environ.get("VERIF_RUNDIR")
    if not root:
        base = "/dev/shm" if os.path.isdir("/dev/shm") and os.access("/dev/shm", os.W_OK) else \
            os.environ.get("TMPDIR", "/tmp")
        root = os.path.join(base, f"cminx-verif-{os.getpid()}")
        os.environ["VERIF_RUNDIR"] = root
        import atexit
        import shutil
        atexit.register(lambda p=root, pid=os.getpid(): os.getpid() == pid and shutil.rmtree(p, ignore_errors=True))
    d = os.path.join(root, str(os.getpid()))
    if _TMPDIR != d:
        os.makedirs(d, exist_ok=True)
        _TMPDIR = d
    return d


def yaml_defaults():
    import yaml
    with open(os.path.join(common.REPO_SRC, "cminx", "config_default.yaml")) as f:
        return yaml.safe_load(f)


def base_settings():
    """Settings as the packaged defaults (config_default.yaml) define them."""
    global _BASE
    if _BASE is None:
        common.bind_impl()
        from cminx.config import Settings, InputSettings, OutputSettings, LoggingSettings, RSTSettings
        y = yaml_defaults()
        inp = dict(y["input"])
        inp.setdefault("exclude_filters", [])
        rst = dict(y["rst"])
        _BASE = Settings(InputSettings(**inp), OutputSettings(**{"directory": None, **y.get("output", {})}),
                         LoggingSettings({}), RSTSettings(**rst))
    return copy.deepcopy(_BASE)


def make_settings(input_over=None, rst_over=None):
    s = base_settings()
    for k, v in (input_over or {}).items():
        if not hasattr(s.input, k):
            raise common.HarnessFault(f"unknown input option {k}")
        setattr(s.input, k, v)
    for k, v in (rst_over or {}).items():
        setattr(s.rst, k, v)
    return s


def write_tmp(text, name="m.cmake", newline=""):
    p = os.path.join(tmpdir(), name)
    with open(p, "w", encoding="utf-8", newline=newline) as f:
        f.write(text)
    return p


FIXED_MTIME = 1_700_000_000


def document_text(text, settings=None, title="Title", module="mod.name", raw=False, mtime=None):
    """returns dict(page=str|None, error=str|None, etype=str|None, log=str, tree=<parse tree the Documenter walked>|None)
    Every call of one process writes the same path (<run dir>/<pid>/m.cmake): a file that is rewritten between two
    documentation runs is the normal case here.  mtime: pin the file's modification time (a rewrite within the
    granularity of the clock)."""
    common.bind_impl()
    from cminx.documenter import Documenter
    if raw:
        p = os.path.join(tmpdir(), "m.cmake")
        with open(p, "wb") as f:
            f.write(text)
    else:
        p = write_tmp(text)
    if mtime is not None:
        os.utime(p, (mtime, mtime))
    settings = settings if settings is not None else base_settings()
    seen = {}
    with common.quiet() as q:
        try:
            d = Documenter(p, title, module, settings)
            orig = getattr(getattr(d, "parser", None), "cmake_file", None)
            if callable(orig):
                def spy():
                    seen["tree"] = orig()
                    return seen["tree"]
                d.parser.cmake_file = spy
            w = d.process()
            page = w.to_text()
            return {"page": page, "error": None, "etype": None, "log": q.out.getvalue() + q.err.getvalue(),
                    "documenter": d, "tree": seen.get("tree")}
        except BaseException as e:  # SystemExit included: a pipeline that exits is a failure to document
            if isinstance(e, (KeyboardInterrupt, MemoryError)):
                raise
            return {"page": None, "error": f"{type(e).__name__}: {e}"[:500], "etype": type(e).__name__,
                    "log": q.out.getvalue() + q.err.getvalue(), "documenter": None, "tree": None}


def parse_tree(text):
    """(tree, parser) of the public parser on a text; raises what the parser raises"""
    common.bind_impl()
    from antlr4 import InputStream, CommonTokenStream
    from cminx.parser.CMakeLexer import CMakeLexer
    from cminx.parser.CMakeParser import CMakeParser
    from cminx.parser import ParserErrorListener
    lexer = CMakeLexer(InputStream(text))
    parser = CMakeParser(CommonTokenStream(lexer))
    parser.addErrorListener(ParserErrorListener())
    with common.quiet():
        tree = parser.cmake_file()
    return tree, parser


def impl_abstraction(text, settings=None):
    """abstraction of the listener's state after walking an (unclosed) history: the four fields its future
    behaviour reads.  Read with getattr so that a refactor that renames them only coarsens the key."""
    common.bind_impl()
    from antlr4 import ParseTreeWalker
    from cminx.aggregator import DocumentationAggregator
    try:
        tree, _ = parse_tree(text)
        agg = DocumentationAggregator(settings if settings is not None else base_settings())
        with common.quiet():
            ParseTreeWalker().walk(agg, tree)
    except BaseException as e:
        if isinstance(e, (KeyboardInterrupt, MemoryError)):
            raise
        return ("error", type(e).__name__)
    cls = tuple("N" if c is None else "C" for c in getattr(agg, "documented_classes_stack", ()))
    aw = getattr(agg, "documented_awaiting_function_def", None)
    ds = tuple((getattr(d, "should_document", None), getattr(d, "documentation", None) is not None,
                bool(getattr(getattr(d, "documentation", None), "has_kwargs", False)))
               for d in getattr(agg, "definition_command_stack", ()))
    return (cls, type(aw).__name__ if aw is not None else None, ds)
