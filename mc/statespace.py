"""The shared event alphabet / well-formedness rules of the abstract-module state space (C02, C03, C08, C09, C11).

`enabled(events, ...)` is the *domain* of the properties: which events may follow a history.  Rules (from the
quantifiers): members/attributes only directly inside a class body (possibly through if/foreach), sections only
inside a test/section body, closers only for the innermost open block, no doccomment on closers or on
cmake_parse_arguments, the implementing definition follows its declaration immediately and is undocumented.
"""
from .cmakegen import stack_of, IMPL_KINDS, DEF_KINDS


def context(events):
    st = stack_of(events)
    kinds = [k for k, _ in st]
    body = [k for k in kinds if k not in ("if", "foreach")]
    inner = body[-1] if body else None
    return st, kinds, inner


def enabled(events, maxnest, rich=True, comments=True, flow=True, tests=True, classes=True, plain=True):
    st, kinds, inner = context(events)
    can_open = len(st) < maxnest
    out = []
    docs = (0, 1)
    if can_open:
        out += [{"k": "function", "doc": d, "params": ["p1", "p2"]} for d in (0, 1, 2)]
        out += [{"k": "macro", "doc": d, "params": ["q"]} for d in docs]
        if rich:
            out += [{"k": "function", "doc": 1, "name": "twin_fn", "doctext": ["Twin function doc."], "params": ["t"]}]
        if flow:
            out += [{"k": "if", "doc": d} for d in docs] + [{"k": "foreach", "doc": 0}]
            if rich:
                out += [{"k": "if", "doc": 1, "args": ["NOT", ["A", "AND", "B"], "OR", "C"]},
                        {"k": "if", "doc": 1, "args": ["A", "AND", ["B", "OR", ["C", "AND", "NOT", "D"]], ["E"]]}]
        if classes:
            out += [{"k": "cpp_class", "doc": d, "bases": ["Base"] if d else []} for d in docs]
        if tests:
            out += [{"k": "ct_add_test", "doc": d} for d in docs]
            if rich:
                out += [{"k": "ct_add_test", "doc": 0, "impl": "macro", "expectfail": 1},
                        {"k": "ct_add_test", "doc": 1, "name": "parse-args.v2"}]     # a name that is no identifier
        if classes and inner == "cpp_class":
            out += [{"k": "cpp_member", "doc": d, "types": ["int", "str"], "params": ["a", "b"]} for d in docs]
            out += [{"k": "cpp_constructor", "doc": d, "types": ["int"], "params": ["x"]} for d in docs]
            if rich:
                out += [{"k": "cpp_member", "doc": 0, "impl": "macro", "types": ["args"], "params": ["r"]}]
        if tests and inner in ("ct_add_test", "ct_add_section"):
            out += [{"k": "ct_add_section", "doc": d} for d in docs]
    if classes and inner == "cpp_class":
        out += [{"k": "cpp_attr", "doc": 1, "default": "dflt"}, {"k": "cpp_attr", "doc": 0}]
    if plain:
        out += [{"k": "add_test", "doc": d} for d in docs]
        out += [{"k": "option", "doc": d} for d in docs]
        out += [{"k": "set", "doc": d} for d in docs]
        out += [{"k": "generic", "doc": d} for d in docs]
        if rich:
            # the same documented command verbatim (same name, same doc) may occur several times in a module
            out += [{"k": "set", "doc": 1, "name": "TWIN_VAR", "doctext": ["Twin var doc."], "values": ["v"]}]
            # a doccomment without any text still is a doccomment
            out += [{"k": "set", "doc": 1, "doctext": []}, {"k": "generic", "doc": 1, "cmd": "include_guard",
                                                             "args": ["GLOBAL"], "doctext": [""]}]
            out += [{"k": "generic", "doc": 1, "cmd": "add_library", "args": ["tgt", "STATIC", "a.c"]},
                    {"k": "generic", "doc": 1, "cmd": "include_guard", "args": []}]
    out += [{"k": "cmake_parse_arguments"}]
    if comments:
        out += [{"k": "comment", "shape": s} for s in (0, 1, 4)]
    if st:
        out += [{"k": "close"}]
    return out


def model_key(events):
    """stack of open block kinds + the kind/doc of the last event (adjacency context)"""
    st, kinds, inner = context(events)
    last = events[-1] if events else {}
    # twins: how often (0, 1, 2+) each fixed name was already defined is part of the state
    names = [ev["name"] for ev in events if "name" in ev]
    fixed = tuple(sorted((n, min(names.count(n), 2)) for n in set(names)))
    # which kind of block the last event closed (leaving an inner class is not the same state as leaving an if)
    closed = None
    if last.get("k") == "close":
        closed = stack_of(events[:-1])[-1][0] if stack_of(events[:-1]) else None
    return (tuple(kinds), last.get("k"), last.get("doc", 0), last.get("impl"), fixed, closed)
