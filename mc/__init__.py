"""Bounded exhaustive exploration ("model checking", sequential form) of CMakePP/CMinx.

See /verif/DESIGN.md.  Everything here runs under /venv/bin/python and executes the CMinx sources
of /repo's *working tree* (or of $CMINX_SRC for detection experiments on scratch copies).
"""
