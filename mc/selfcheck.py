"""setup-time sanity: the implementation binds to the working tree and the external references exist."""
import shutil, sys
from . import common
def main():
    common.bind_impl()
    import docutils, pathspec, confuse, antlr4  # noqa
    if shutil.which("cmake") is None:
        print("cmake not found", file=sys.stderr); return 2
    print("selfcheck ok")
    return 0
if __name__ == "__main__":
    sys.exit(main())
