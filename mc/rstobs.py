"""Observers of generated reST.

(a) a line/indent based block splitter that is tolerant to blank-line and indent-width conventions:
    a directive is a line  `<indent>.. name:: argument`; its body is every following line that is blank or
    indented more than the heading.  Options are the `:k: v` lines directly under the heading (before the
    first blank line), fields are `:k: v` lines elsewhere in the body at the body's own indentation.
(b) a docutils parse with stub directives (see docutils_parse).
"""
import re

HEAD = re.compile(r"^(\s*)\.\. ([A-Za-z][\w:+-]*)::(?: (.*))?$")
FIELD = re.compile(r"^:([^:\n][^:\n]*):(?: (.*))?$")


class Block:
    def __init__(self, name, arg, indent, lineno):
        self.name, self.arg, self.indent, self.lineno = name, arg, indent, lineno
        self.options = []      # [(k, v)]
        self.body = []         # raw body lines (with original indentation), blank lines included
        self.children = []     # nested Blocks (directives found at this block's own content level or deeper)
        self.own = []          # body lines that do not belong to a nested child (original text)
        self.content_indent = None

    # -- derived views
    def own_text(self):
        """own lines with the block's content indentation removed (blank lines -> '')"""
        ci = self.content_indent or 0
        return [l[ci:] if l.strip() else "" for l in self.own]

    def fields(self):
        out = []
        for l in self.own_text():
            m = FIELD.match(l)
            if m:
                out.append((m.group(1), (m.group(2) or "")))
        return out

    def child(self, *names):
        return [c for c in self.children if c.name in names]

    def walk(self):
        yield self
        for c in self.children:
            yield from c.walk()

    def all_text(self):
        return "\n".join(self.body)

    def __repr__(self):
        return f"<{self.name}:: {self.arg!r} +{len(self.children)}>"


def _indent(l):
    return len(l) - len(l.lstrip(" "))


def parse_blocks(lines, start, end, parent_indent):
    """directives among lines[start:end] that are not nested in another directive of that range;
    returns (blocks, own_line_indices)"""
    blocks, own = [], []
    seq = []
    i = start
    while i < end:
        l = lines[i]
        m = HEAD.match(l)
        if m and len(m.group(1)) > parent_indent:
            ind = len(m.group(1))
            b = Block(m.group(2), (m.group(3) or "").rstrip(), ind, i)
            j = i + 1
            while j < end and (not lines[j].strip() or _indent(lines[j]) > ind):
                j += 1
            # trailing blank lines belong to the parent
            k = j
            while k > i + 1 and not lines[k - 1].strip():
                k -= 1
            b.body = lines[i + 1:k]
            _fill(b)
            blocks.append(b)
            seq.append(b)
            i = k
        else:
            own.append(i)
            seq.append(l)
            i += 1
    parse_blocks.last_seq = seq
    return blocks, own


def _fill(b):
    body = b.body
    # options: `:k: v` lines directly after the heading, before the first blank line
    n = 0
    while n < len(body) and body[n].strip():
        m = FIELD.match(body[n].strip())
        if not m or _indent(body[n]) <= b.indent:
            break
        b.options.append((m.group(1), m.group(2) or ""))
        n += 1
    if n < len(body) and body[n].strip():
        # non-option text directly under the heading: then nothing was an option-block; keep what matched
        pass
    rest = body[n:]
    nonblank = [l for l in rest if l.strip()]
    b.content_indent = min((_indent(l) for l in nonblank), default=b.indent + 3)
    kids, own = parse_blocks(rest, 0, len(rest), b.indent)
    b.seq = parse_blocks.last_seq   # own lines and child blocks in document order
    b.children = kids
    b.own = [rest[i] for i in own]


class Page:
    def __init__(self, text):
        self.text = text
        self.lines = text.split("\n")
        nb = [(i, l) for i, l in enumerate(self.lines) if l.strip()]
        self.frame = [l for _, l in nb[:3]]
        self.frame_end = nb[2][0] + 1 if len(nb) >= 3 else 0
        self.blocks, own = parse_blocks(self.lines, self.frame_end, len(self.lines), -1)
        self.stray = [self.lines[i] for i in own if self.lines[i].strip()]

    @property
    def title(self):
        return self.frame[1] if len(self.frame) == 3 else None

    def module(self):
        return [b for b in self.blocks if b.name == "module"]

    def entries(self):
        return [b for b in self.blocks if b.name != "module"]


# ---------------------------------------------------------------- abstraction of entries (C02, C03, C08, C09, C11)

def classify(b):
    """entry kind of a top-level block, from the markers the statement names"""
    if b.name == "function":
        notes = " ".join((c.arg + " " + " ".join(c.own_text())) for c in b.child("note"))
        warns = " ".join((c.arg + " " + " ".join(c.own_text())) for c in b.child("warning"))
        if "section" in warns:
            return "section"
        if "CTest" in warns:
            return "ctest"
        if "CMakeTest" in warns:
            return "test"
        if "generic" in warns:
            return "generic"
        if warns.strip():
            return "function+unknown-warning"
        if "macro" in notes:
            return "macro"
        return "function"
    if b.name == "data":
        notes = " ".join((c.arg + " " + " ".join(c.own_text())) for c in b.child("note"))
        return "option" if "option" in notes else "data"
    if b.name == "py:class":
        return "class"
    return "?" + b.name


def doc_of(b):
    """own text lines of a block minus structural lines emitted by CMinx (fields, captions, bases)"""
    return [l for l in b.own_text()]


def norm_ws(s):
    return " ".join(s.split())


def split_sig(sig):
    """'name(p1 "a  b" [[c d]])' -> (name, [parameters]); whitespace inside quoted/bracket parameters is kept"""
    if "(" not in sig or not sig.rstrip().endswith(")"):
        return sig.strip(), None
    name, inner = sig.split("(", 1)
    inner = inner.rstrip()[:-1]
    out, cur, i, n = [], "", 0, len(inner)
    while i < n:
        c = inner[i]
        if c == '"':
            j = i + 1
            while j < n and inner[j] != '"':
                j += 2 if inner[j] == "\\" else 1
            cur += inner[i:j + 1]; i = j + 1; continue
        m = re.match(r"\[(=*)\[", inner[i:])
        if m:
            close = "]" + m.group(1) + "]"
            j = inner.find(close, i)
            if j >= 0:
                cur += inner[i:j + len(close)]; i = j + len(close); continue
        if c == "\\" and i + 1 < n:      # an escaped character (blank included) belongs to the unquoted parameter
            cur += inner[i:i + 2]; i += 2; continue
        if c in " \t\n":
            if cur:
                out.append(cur); cur = ""
            i += 1; continue
        cur += c; i += 1
    if cur:
        out.append(cur)
    return name.strip(), out


def abstract_entry(b):
    kind = classify(b)
    e = {"kind": kind, "sig": norm_ws(b.arg), "rawsig": b.arg}
    if kind == "class":
        own = b.own_text()
        bases = [l for l in own if l.startswith("Bases:")]
        e["bases"] = re.findall(r":class:`([^`]*)`", bases[0]) if bases else []
        e["ctors"], e["methods"], e["attrs"] = [], [], []
        group = "methods"
        for it in b.seq:
            if isinstance(it, str):
                t = it.strip()
                if t.startswith("**"):
                    group = "ctors" if "onstructor" in t else "methods" if "ethod" in t else \
                        "attrs" if "ttribute" in t else "inner"
                continue
            if it.name == "py:method":
                e[group if group in ("ctors", "methods") else "methods"].append(abstract_member(it))
            elif it.name == "py:attribute":
                e["attrs"].append({"name": norm_ws(it.arg), "value": dict(it.options).get("value"),
                                   "has_value": "value" in dict(it.options), "doc": strip_blank(it.own_text())})
        e["inner"] = re.findall(r":class:`([^`]*)`", "\n".join(l for l in own if l.lstrip().startswith("*")))
        e["captions"] = [l.strip() for l in own if l.strip().startswith("**")]
    if kind in ("data", "option"):
        e["fields"] = b.fields()
    e["doc"] = strip_blank(b.own_text())
    return e


def abstract_member(c):
    return {"sig": norm_ws(c.arg), "macro": any("macro" in (n.arg + " ".join(n.own_text())) for n in c.child("note")),
            "fields": c.fields(), "doc": strip_blank(c.own_text())}


def strip_blank(lines):
    lines = list(lines)
    while lines and not lines[0].strip():
        lines.pop(0)
    while lines and not lines[-1].strip():
        lines.pop()
    return lines


def contains_run(hay, needle):
    """needle (list of lines, '' matches whitespace-only) occurs as one contiguous run in hay"""
    if not needle:
        return True
    n = len(needle)
    for i in range(len(hay) - n + 1):
        if all((hay[i + j] == needle[j]) or (needle[j] == "" and not hay[i + j].strip()) for j in range(n)):
            return True
    return False


# ---------------------------------------------------------------- docutils observer (C07)

_registered = False


def _register():
    global _registered
    if _registered:
        return
    from docutils import nodes
    from docutils.parsers.rst import Directive, directives, roles

    class Stub(Directive):
        has_content = True
        optional_arguments = 1
        final_argument_whitespace = True
        option_spec = {"value": directives.unchanged, "maxdepth": directives.unchanged,
                       "noindex": directives.flag}

        def run(self):
            node = nodes.container()
            node["stub"] = self.name
            node["arg"] = self.arguments[0] if self.arguments else ""
            node["opts"] = dict(self.options)
            self.state.nested_parse(self.content, self.content_offset, node)
            return [node]

    for n in ("module", "function", "data", "py:class", "py:method", "py:attribute", "toctree"):
        directives.register_directive(n, Stub)

    def class_role(name, rawtext, text, lineno, inliner, options=None, content=None):
        return [nodes.literal(rawtext, text)], []

    roles.register_local_role("class", class_role)
    _registered = True


def docutils_parse(text):
    """returns (doctree, [(level, message)])"""
    import docutils.core
    import docutils.utils
    _register()
    msgs = []
    settings = {"report_level": 5, "halt_level": 5, "warning_stream": False, "file_insertion_enabled": False,
                "raw_enabled": False}
    doctree = docutils.core.publish_doctree(text, settings_overrides=settings)
    from docutils import nodes
    for sm in doctree.traverse(nodes.system_message):
        msgs.append((sm["level"], sm.astext()))
    return doctree, msgs
