"""Checking one abstract module (event history) against the reference model - shared by C02/C03/C08/C09/C11."""
import functools

from . import common, cmakegen, pipeline, refmodel, rstobs, statespace

INPUT_KEYS = set(refmodel.default_cfg())


def settings_of(cfg):
    return pipeline.make_settings({k: v for k, v in (cfg or {}).items() if k in INPUT_KEYS})


def run_module(events, cfg=None, case="lower", trailing=False):
    text = cmakegen.text_of(events, case=case, trailing_dangling=trailing)
    r = pipeline.document_text(text, settings_of(cfg))
    return text, r


def check_module(events, cfg=None, case="lower", trailing=False, only=None):
    """returns (messages, expected_digest, nontrivial).  only: optional tuple of message classes to keep."""
    text, r = run_module(events, cfg, case, trailing)
    exp = refmodel.expected(events, cfg)
    dg = common.digest([(e["kind"], e["sig"], e.get("inner"), [refmodel.member_sig(m) for m in e.get("methods", [])],
                         e.get("type"), e.get("value"), e.get("default"), e.get("help")) for e in exp])
    if r["page"] is None:
        return [f"error: pipeline failed on a well-formed module: {r['error']}"], dg, bool(exp)
    page = rstobs.Page(r["page"])
    msgs = []
    if len(page.module()) != 1 or page.blocks[0].name != "module":
        msgs.append(f"module: expected exactly one module directive first, got {[b.name for b in page.blocks][:4]}")
    if page.stray:
        msgs.append(f"stray: text outside any entry: {page.stray[:3]}")
    obs = [rstobs.abstract_entry(b) for b in page.entries()]
    msgs += refmodel.compare(exp, obs)
    if "Dangling" in r["page"]:
        msgs.append("dangling: text of a doccomment not followed by a command reached the output")
    for ev in events:
        if ev["k"] == "comment":
            t = ev.get("text", cmakegen.COMMENT_SHAPES[ev.get("shape", 0)])
            core = t.strip("#[]= \n")
            if core and core in r["page"]:
                msgs.append(f"comment: annotation comment text {core!r} reached the output")
    if only:
        msgs = [m for m in msgs if m.split(":")[0] in only]
    return msgs, dg, bool(exp)


def result(ev, key, msgs, dg, nt):
    return {"ev": ev, "key": key, "viol": msgs, "obs": dg, "nt": dg if nt else None,
            "cls": msgs[0].split(":")[0] if msgs else None}


def impl_key(events, case, cfg=None):
    return pipeline.impl_abstraction(cmakegen.render(cmakegen.items(events, case)), settings_of(cfg))


def all_histories(n, enabled_fn):
    level, out = [[]], []
    for _ in range(n):
        nxt = []
        for h in level:
            for ev in enabled_fn(h):
                nxt.append(h + [ev])
        out += nxt
        level = nxt
    return out
