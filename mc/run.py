"""CLI:  python -m mc.run <ID> [--tier quick|thorough] [--replay FILE] [--confirm]

exit 0  property held on everything explored (known findings, if any, printed as KNOWN-FINDING lines)
exit 1  VIOLATION property=<id> replay=<path>
exit 2  harness fault (generator/reference/determinism problem) - not a verdict about CMinx
"""
import argparse
import importlib
import json
import os
import subprocess
import sys
import time
import traceback

from . import common
from .common import HarnessFault

EVIDENCE_DIR = os.path.join(common.VERIF_ROOT, "evidence")
REPLAY_DIR = os.path.join(common.VERIF_ROOT, "replays")
FINDINGS_FILE = os.path.join(common.VERIF_ROOT, "known_findings.json")
MAX_REPLAYS = 12


def load_findings():
    try:
        with open(FINDINGS_FILE) as f:
            return json.load(f)["findings"]
    except FileNotFoundError:
        return []


class Run:
    """Bookkeeping of one check run: counts, samples, violations, evidence."""

    def __init__(self, pid, tier, driver):
        self.pid, self.tier, self.seed, self.driver = pid, tier, common.seed(), driver
        self.t0 = time.time()
        self.cov = {"evaluations": 0, "states": 0, "transitions": 0, "traces_validated_against_impl": 0,
                    "max_depth": 0, "exhaustive": True, "bounds": {}, "caps_hit": [], "spaces": {}}
        self.obs = set()          # distinct observations (digests)
        self.nontrivial = set()   # distinct non-trivial case keys
        self.samples = []
        self.assumptions = []
        self.violations = []      # (cls, path)
        self.vclasses = {}
        self.known_seen = {}
        self.open_findings = {f["id"]: f for f in load_findings()
                              if f.get("status") == "open" and pid in f.get("property", [])}

    # ---- recording
    def sample(self, case, limit=5):
        if len(self.samples) < limit:
            self.samples.append(case)

    def note_result(self, case, res):
        """res: dict(viol=[...], obs=digest|None, nt=key|None)"""
        self.cov["evaluations"] += res.get("n", 1)
        self.cov["traces_validated_against_impl"] += res.get("n", 1)
        if res.get("obs") is not None:
            self.obs.add(res["obs"])
        if res.get("nt") is not None:
            self.nontrivial.add(res["nt"])
        if res.get("fault"):
            raise HarnessFault(f"{res['fault']} on case {json.dumps(case)[:600]}")
        if res.get("viol"):
            self.violation(res.get("case", case), res["viol"], res.get("cls"))

    def violation(self, case, msgs, cls=None):
        cls = cls or msgs[0][:60]
        fid = None
        attribute = getattr(self.driver, "attribute", None)
        if attribute is not None and self.open_findings:
            try:
                fid = attribute(case, msgs)
            except Exception:  # attribution must never hide a violation
                fid = None
        if fid is not None and fid in self.open_findings:
            self.known_seen[fid] = self.known_seen.get(fid, 0) + 1
            return
        self.vclasses[cls] = self.vclasses.get(cls, 0) + 1
        if self.vclasses[cls] > 1 or len(self.violations) >= MAX_REPLAYS:
            return
        os.makedirs(os.path.join(REPLAY_DIR, self.pid), exist_ok=True)
        body = {"property": self.pid, "case": case, "messages": msgs[:20], "seed": self.seed, "tier": self.tier}
        path = os.path.join(REPLAY_DIR, self.pid, common.digest(body["case"]) + ".json")
        with open(path, "w") as f:
            json.dump(body, f, indent=1, ensure_ascii=False)
        self.violations.append((cls, path, msgs))
        hist = getattr(self, "_history", None)
        if hist:
            with open(path[:-5] + ".history.json", "w") as f:
                json.dump({"property": self.pid, "history": list(hist) + [case], "messages": msgs[:20],
                           "note": "the violation may depend on the cases that ran before it in the same process; "
                                   "they are replayed in order, the verdict is that of the last case"},
                          f, indent=1, ensure_ascii=False)

    # ---- exploration helpers
    def sweep(self, fn, cases, space=None, selftest=40, chunk=None, isolate=True):
        """Run fn over every case (parallel, ordered).  fn(case)->result dict (see note_result).
        isolate: each case runs in a forked child of a process that never ran the code under test."""
        cases = list(cases)
        n0 = self.cov["evaluations"]
        if chunk is None:
            chunk = max(1, min(256, len(cases) // (common.NPROC * 8) or 1))
        results = common.pmap(fn, cases, chunk, isolate=isolate)
        # determinism self-test: the first cases are executed a second time, from this process
        # (isolated sweeps: only the first case of a chunk ran in a process without a past, so only those are compared
        # with a fresh execution; a result that differs because of the cases before it is not a harness matter - if it
        # violates the oracle it is reported with its history)
        step = chunk if isolate else 1
        for n in list(range(0, len(cases), step))[:selftest]:
            c, r = cases[n], results[n]
            r2 = common.in_fork(fn, c) if isolate else fn(c)
            if (r.get("obs"), r.get("viol")) != (r2.get("obs"), r2.get("viol")):
                raise HarnessFault(f"non-deterministic observation for case {json.dumps(c)[:400]}")
        for n, (c, r) in enumerate(zip(cases, results)):
            # the cases that ran before this one in the same (forked) child, should the violation depend on them
            # (in the form the driver's replay() takes: a result may carry its own replayable "case")
            self._history = [results[i].get("case") or cases[i] for i in range((n // chunk) * chunk, n)] if isolate else None
            self.note_result(c, r)
        self._history = None
        for c in cases[:1] + cases[len(cases) // 2: len(cases) // 2 + 1]:
            self.sample(c)
        if space:
            self.cov["spaces"][space] = self.cov["spaces"].get(space, 0) + self.cov["evaluations"] - n0
        self.cov["states"] += len(cases)
        self.cov["transitions"] += self.cov["evaluations"] - n0
        return results

    def bfs(self, expand, root_key, max_depth, dedup=True, space=None, cap=None):
        """Explicit-state BFS.  A state is the event history reaching it.
        expand(history) -> list of dict(ev=event, key=canonical key | None (terminal), viol, obs, nt)
        Every returned item is one execution of the implementation on history+[ev]."""
        seen = {root_key}
        frontier = [[]]
        states, transitions, depth = 1, 0, 0
        while frontier and depth < max_depth:
            nxt = []
            bchunk = max(1, min(32, len(frontier) // (common.NPROC * 4) or 1))
            results = common.pmap(expand, frontier, bchunk, isolate=True)
            if depth == 0 and frontier:
                again = common.in_fork(expand, frontier[0])
                if [(r.get("obs"), r.get("viol")) for r in again] != [(r.get("obs"), r.get("viol")) for r in results[0]]:
                    raise HarnessFault("non-deterministic expansion of the initial state")
            for fn_, (hist, succ) in enumerate(zip(frontier, results)):
                for rn, r in enumerate(succ):
                    transitions += 1
                    h2 = hist + [r["ev"]]
                    # transitions executed before this one in the same forked child
                    start = (fn_ // bchunk) * bchunk
                    self._history = [frontier[i] + [x["ev"]] for i in range(start, fn_) for x in results[i]] + \
                                    [hist + [x["ev"]] for x in succ[:rn]]
                    self.note_result(h2, r)
                    k = r.get("key")
                    if k is None:
                        continue
                    if dedup:
                        if k in seen:
                            continue
                        seen.add(k)
                    states += 1
                    nxt.append(h2)
                    if cap and states >= cap:
                        break
            self._history = None
            depth += 1
            if nxt:
                self.sample(nxt[len(nxt) // 2])
            if cap and states >= cap:
                self.cov["caps_hit"].append(f"{space or 'bfs'}: state cap {cap} at depth {depth}")
                self.cov["exhaustive"] = False
                break
            frontier = nxt
        self.cov["states"] += states
        self.cov["transitions"] += transitions
        self.cov["max_depth"] = max(self.cov["max_depth"], depth)
        if space:
            self.cov["spaces"][space] = {"states": states, "transitions": transitions, "depth": depth,
                                         "dedup": dedup}
        return states, transitions

    # ---- finishing
    def finish(self, rule, level="model_checking"):
        wall = time.time() - self.t0
        confirmed, unconfirmed = [], []
        for cls, path, msgs in self.violations:
            ok = confirm(self.pid, path)
            if not ok and os.path.exists(path[:-5] + ".history.json"):
                # not reproducible alone: replay it after the cases that preceded it in its process
                path = path[:-5] + ".history.json"
                ok = confirm(self.pid, path)
                cls = cls + " [depends on earlier cases in the same process]"
                self.vclasses[cls] = 1
            if not ok:
                if os.environ.get("VERIF_KEEP"):   # debugging aid: keep the replay files of the run directory
                    import shutil
                    shutil.copytree(os.path.dirname(path), os.environ["VERIF_KEEP"], dirs_exist_ok=True)
                unconfirmed.append((cls, path, msgs))
                continue
            confirmed.append((cls, path, msgs))
        if unconfirmed and not confirmed:
            cls, path, msgs = unconfirmed[0]
            raise HarnessFault(f"violation did not reproduce in a fresh process: {path} {msgs[:2]}")
        for cls, path, msgs in unconfirmed:
            # other violations of this run did reproduce and are reported; this one is not believed and not reported
            print(f"  unconfirmed (did not reproduce in a fresh process, not reported): {cls}: {str(msgs[:1])[:200]}")
            self.vclasses.pop(cls, None)
        cov = dict(self.cov)
        cov["distinct_observations"] = len(self.obs)
        cov["distinct_nontrivial"] = len(self.nontrivial)
        cov["rule"] = rule
        cov["samples"] = self.samples[:5] or ["<none>"]
        cov["known_findings_seen"] = self.known_seen
        cov["violation_classes"] = self.vclasses
        ev = {"property_id": self.pid, "tier": self.tier, "seed": self.seed, "level": level,
              "coverage": cov, "assumptions": self.assumptions, "wall_s": round(wall, 2),
              "violations": sum(self.vclasses.values())}
        if not os.environ.get("VERIF_NO_EVIDENCE"):   # set only by tools/mutant.sh (runs against scratch trees)
            os.makedirs(EVIDENCE_DIR, exist_ok=True)
            with open(os.path.join(EVIDENCE_DIR, self.pid + ".json"), "w") as f:
                json.dump(ev, f, indent=1, ensure_ascii=False, default=str)
        print(f"[{self.pid}] tier={self.tier} seed={self.seed} evaluations={cov['evaluations']} "
              f"states={cov['states']} transitions={cov['transitions']} max_depth={cov['max_depth']} "
              f"distinct_obs={len(self.obs)} nontrivial={len(self.nontrivial)} wall={wall:.1f}s")
        for fid, n in sorted(self.known_seen.items()):
            print(f"KNOWN-FINDING: property={self.pid} {fid}: {self.open_findings[fid]['what']} ({n} cases)")
        for cls, path, msgs in confirmed:
            print(f"  class: {cls}  (x{self.vclasses[cls]})")
            for m in msgs[:4]:
                print("    " + m[:300].replace("\n", "\\n"))
            print(f"VIOLATION property={self.pid} replay={path}")
        return 1 if confirmed else 0


def confirm(pid, path):
    env = dict(os.environ)
    env.pop("VERIF_RUNDIR", None)
    p = subprocess.run([common.PYTHON, "-m", "mc.run", pid, "--replay", path, "--confirm"],
                       cwd=common.VERIF_ROOT, env=env, capture_output=True, text=True)
    return p.returncode == 1


def load_driver(pid):
    return importlib.import_module(f"mc.props.{pid}")


def main(argv=None):
    ap = argparse.ArgumentParser()
    ap.add_argument("pid")
    ap.add_argument("--tier", default=os.environ.get("VERIF_TIER", "quick"), choices=["quick", "thorough"])
    ap.add_argument("--replay")
    ap.add_argument("--confirm", action="store_true")
    a = ap.parse_args(argv)
    if os.environ.get("PYTHONHASHSEED") is None and argv is None:
        # string hashing must be the same in this process, its forked workers and the fresh confirming processes
        os.environ["PYTHONHASHSEED"] = "0"
        os.execv(sys.executable, [sys.executable, "-m", "mc.run"] + sys.argv[1:])
    os.environ.setdefault("PYTHONHASHSEED", "0")
    os.environ.setdefault("LC_ALL", "C.UTF-8")
    os.environ.setdefault("PYTHONUTF8", "1")
    from . import pipeline
    pipeline.tmpdir()   # fixes VERIF_RUNDIR before workers are forked; removed at exit
    try:
        common.bind_impl()
        drv = load_driver(a.pid)
        if a.replay:
            with open(a.replay) as f:
                body = json.load(f)
            if "history" in body:
                msgs = []
                for c in body["history"]:
                    msgs = drv.replay(c)
            else:
                msgs = drv.replay(body["case"])
            if msgs:
                if not a.confirm:
                    for m in msgs:
                        print(m)
                    print(f"VIOLATION property={a.pid} replay={a.replay}")
                return 1
            if not a.confirm:
                print(f"[{a.pid}] replay {a.replay}: property holds on this case")
            return 0
        import shutil
        global REPLAY_DIR
        if os.environ.get("VERIF_NO_EVIDENCE"):
            # scratch runs (tools/mutant.sh, intake, seed regression) may run concurrently with each other and with a
            # real run of the same property: they keep their replay files in their own run directory
            REPLAY_DIR = os.path.join(os.environ["VERIF_RUNDIR"], "replays")
        shutil.rmtree(os.path.join(REPLAY_DIR, a.pid), ignore_errors=True)
        run = Run(a.pid, a.tier, drv)
        rule = drv.run(run)
        return run.finish(rule or getattr(drv, "RULE", ""), getattr(drv, "LEVEL", "model_checking"))
    except HarnessFault as e:
        print(f"HARNESS-FAULT property={a.pid}: {e}", file=sys.stderr)
        return 2
    except Exception:
        traceback.print_exc()
        print(f"HARNESS-FAULT property={a.pid}: unexpected exception in the harness", file=sys.stderr)
        return 2
    finally:
        common.close_pool()
        import shutil
        shutil.rmtree(os.environ.get("VERIF_RUNDIR", "/nonexistent"), ignore_errors=True)


if __name__ == "__main__":
    sys.exit(main())
