#!/venv/bin/python
"""usage: tools/rebase_seed.py <seed id>...   - re-creates seeded/<id>/patch.diff on top of /repo's current HEAD when
later fix commits touched neighbouring lines: three-way application, conflict blocks in which both sides only ADDED text
(a new function at the same place) are resolved by keeping both; anything else is left for a human.  The 69 tests are
run on the result; nothing is written unless they pass."""
import json, os, re, subprocess, sys, tempfile, shutil

def sh(cmd, **kw):
    return subprocess.run(cmd, shell=True, capture_output=True, text=True, **kw)

THEIRS = "--theirs" in sys.argv      # conflict blocks are resolved in favour of the seeded change (the fix touched the very line it replaces)
for sid in [a for a in sys.argv[1:] if not a.startswith("--")]:
    d = f"/verif/seeded/{sid}"
    wt = tempfile.mkdtemp(prefix="rebase-", dir="/tmp"); os.rmdir(wt)
    sh(f"git -C /repo worktree add -q --detach {wt} HEAD")
    try:
        if sh(f"git -C {wt} apply --check {d}/patch.diff").returncode == 0:
            print(sid, "applies as it is"); continue
        sh(f"git -C {wt} apply --3way {d}/patch.diff")
        bad = False
        for f in sh(f"git -C {wt} diff --name-only --diff-filter=U").stdout.split():
            p = os.path.join(wt, f)
            s = open(p).read()
            def both(m):
                if THEIRS:
                    return m.group(2)
                return m.group(1) + ("\n\n" if m.group(1).strip() and m.group(2).strip() else "") + m.group(2)
            s2 = re.sub(r"<<<<<<< ours\n(.*?)=======\n(.*?)>>>>>>> theirs\n", both, s, flags=re.S)
            if "<<<<<<<" in s2 or "|||||||" in s2:
                bad = True
            open(p, "w").write(s2)
        sh(f"git -C {wt} reset -q")
        t = sh(f"cd {wt} && PYTHONPATH={wt}/src /venv/bin/python -m pytest -q -p no:cacheprovider 2>&1 | tail -1").stdout.strip()
        if bad or "69 passed" not in t:
            print(sid, "NOT rebased:", t); continue
        diff = sh(f"git -C {wt} diff -- src cmake").stdout
        open(f"{d}/patch.diff", "w").write(diff)
        m = json.load(open(f"{d}/meta.json"))
        m["rebased"] = ("patch.diff re-created on top of later fix commits in /repo (three-way application; " +
                        ("the fix had touched the very line the seeded change replaces: the seeded side was kept" if THEIRS else
                         "both sides had added text at the same place, both were kept") + "); the 69 tests were re-run on the result")
        json.dump(m, open(f"{d}/meta.json", "w"), indent=1, ensure_ascii=False)
        print(sid, "rebased:", t)
    finally:
        sh(f"git -C /repo worktree remove --force {wt}"); shutil.rmtree(wt, ignore_errors=True)
