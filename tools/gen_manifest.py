#!/venv/bin/python
"""Generates /verif/MANIFEST.json from the table below and validates it (python3-vt has jsonschema)."""
import json, os, subprocess, sys
ROOT = os.path.dirname(os.path.dirname(os.path.abspath(__file__)))
PY = "/venv/bin/python"
BASE = ("cd /repo && /venv/bin/python -m pytest -ra -q -p no:cacheprovider --timeout=900 "
        "--continue-on-collection-errors")

# id -> (category, technique, text, note, design_ref)
CHECKS = {}
NA = {}

def check(pid, technique, text, note, ref, category="model_checking", thorough=True):
    CHECKS[pid] = dict(technique=technique, text=text, note=note, ref=ref, category=category, thorough=thorough)

exec(open(os.path.join(ROOT, "tools", "manifest_table.py")).read())

props = [json.loads(l)["id"] for l in open(os.path.join(ROOT, "properties.jsonl"))]
m = {
    "version": 1,
    "setup_cmd": f"cd /verif && {PY} -m compileall -q mc && {PY} -m mc.selfcheck",
    "hooks": {"guard": "CMINX_VERIF", "enable": "no hooks are needed: every seam is a public function or the standard library, patched from the harness process",
              "baseline_off_cmd": BASE, "source_commits": [], "add_only": True},
    "engines": [{"name": "mc", "path": "/verif/mc", "serves_properties": sorted(CHECKS),
                 "kind_free_text": "hand-written bounded exhaustive explorer for Python (explicit-state BFS over event histories executed on the real code, sharded exhaustive enumeration, deviation bounding) with reference models run in lock-step"}],
    "checks": [], "not_applicable": [],
    "notes": "All checks run the CMinx sources of /repo's working tree in-process (PYTHONPATH front = /repo/src, asserted). VERIF_SEED rotates spellings only, never selects a subset.",
}
for pid in props:
    if pid in CHECKS:
        c = CHECKS[pid]
        e = {"property_id": pid, "quick_cmd": f"{PY} -m mc.run {pid} --tier quick",
             "evidence_file": f"/verif/evidence/{pid}.json",
             "replay_cmd_template": f"{PY} -m mc.run {pid} --replay {{path}}", "engine": "mc",
             "level_claimed": {"category": c["category"], "text": c["text"], "design_ref": c["ref"]},
             "level_note": c["note"], "technique": c["technique"]}
        if c["thorough"]:
            e["thorough_cmd"] = f"{PY} -m mc.run {pid} --tier thorough"
        m["checks"].append(e)
    else:
        m["not_applicable"].append({"property_id": pid, "reason": NA.get(pid, "check not built yet in this round; see DESIGN.md section 4 for the planned bounded-exhaustive check")})
json.dump(m, open(os.path.join(ROOT, "MANIFEST.json"), "w"), indent=1)
r = subprocess.run(["python3-vt", "-c", "import json,jsonschema,sys; jsonschema.validate(json.load(open('%s/MANIFEST.json')), json.load(open('/root/.vp/MANIFEST.schema.json'))); print('MANIFEST valid,', len(json.load(open('%s/MANIFEST.json'))['checks']), 'checks')" % (ROOT, ROOT)])
sys.exit(r.returncode)
