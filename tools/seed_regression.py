#!/venv/bin/python
"""Re-runs, for every seeded change under /verif/seeded, the quick check(s) that are recorded as reporting it, against a
scratch worktree of /repo with the patch applied (never in /repo).  Prints one line per seed; exit 0 iff every seed that
is recorded as detected is still detected.  usage: tools/seed_regression.py [seed ids...]"""
import glob, json, os, subprocess, sys, tempfile, shutil

def sh(cmd):
    return subprocess.run(cmd, shell=True, capture_output=True, text=True)

def main():
    only = set(sys.argv[1:])
    bad = 0
    for meta in sorted(glob.glob("/verif/seeded/*/meta.json")):
        m = json.load(open(meta))
        sid = m["id"]
        if only and sid not in only:
            continue
        if m.get("neutralised_by"):
            print(f"{sid}: (no longer breaks the property since {m['neutralised_by']}) skipped")
            continue
        want = [c for c, v in m.get("checks", {}).items() if v.get("detected")]
        if not want:
            print(f"{sid}: (recorded as not detected / out of domain) skipped")
            continue
        wt = tempfile.mkdtemp(prefix="regr-", dir="/tmp"); os.rmdir(wt)
        sh(f"git -C /repo worktree add -q --detach {wt} HEAD")
        try:
            patch = os.path.join(os.path.dirname(meta), "patch.diff")
            ap = sh(f"git -C {wt} apply {patch}")
            if ap.returncode:
                ap = sh(f"git -C {wt} apply --3way {patch} && git -C {wt} reset -q")
            if ap.returncode:
                print(f"{sid}: PATCH-DOES-NOT-APPLY"); bad += 1; continue
            for c in want:
                p = sh(f"cd /verif && CMINX_REPO={wt} CMINX_SRC={wt}/src VERIF_NO_EVIDENCE=1 /venv/bin/python -m mc.run {c} --tier quick 2>&1")
                hit = f"VIOLATION property={c}" in p.stdout
                print(f"{sid}: {c} {'detected' if hit else 'MISSED'}", flush=True)
                bad += 0 if hit else 1
        finally:
            sh(f"git -C /repo worktree remove --force {wt}"); shutil.rmtree(wt, ignore_errors=True); sh("git -C /repo worktree prune")
    return 1 if bad else 0

sys.exit(main())
