#!/bin/bash
# usage: tools/mutant.sh <patch.diff> [--no-tests] <check id>...
# Applies the patch to a scratch worktree of /repo (outside /repo and /verif), runs the repository's own tests
# there (they must still pass for the change to count as realistic), runs the named quick checks against the
# scratch tree (CMINX_REPO / CMINX_SRC), removes the worktree.  Exit 0 iff tests pass and every check reports a
# VIOLATION.
set -u
patch=$(readlink -f "$1"); shift
runtests=1
if [ "${1:-}" = "--no-tests" ]; then runtests=0; shift; fi
wt=$(mktemp -d /tmp/mw-XXXXXX)
rmdir "$wt"
git -C /repo worktree add -q --detach "$wt" HEAD || exit 3
cleanup() { git -C /repo worktree remove --force "$wt" 2>/dev/null; rm -rf "$wt"; git -C /repo worktree prune; }
trap cleanup EXIT
if ! git -C "$wt" apply "$patch" 2>/dev/null; then
  # the tree moved on since the change was written (later fix commits): fall back to a three-way application
  if ! (git -C "$wt" apply --3way "$patch" >/dev/null 2>&1 && git -C "$wt" reset -q); then echo "PATCH-DOES-NOT-APPLY"; exit 3; fi
fi
rc=0
if [ $runtests = 1 ]; then
  out=$(cd "$wt" && PYTHONPATH="$wt/src" /venv/bin/python -m pytest -q -p no:cacheprovider -x 2>&1 | tail -3)
  echo "tests: $(echo "$out" | tail -1)"
  echo "$out" | tail -1 | grep -q "69 passed" || { echo "TESTS-DO-NOT-PASS"; rc=4; }
fi
for id in "$@"; do
  res=$(cd /verif && CMINX_REPO="$wt" CMINX_SRC="$wt/src" VERIF_NO_EVIDENCE=1 /venv/bin/python -m mc.run "$id" --tier ${TIER:-quick} 2>&1 | grep -v conda)
  if echo "$res" | grep -q "^VIOLATION property=$id"; then
    echo "$id: DETECTED  $(echo "$res" | grep -m1 -A1 'class:' | tr '\n' ' ' | cut -c1-260)"
  else
    echo "$id: MISSED    $(echo "$res" | tail -2 | tr '\n' ' ' | cut -c1-300)"; [ $rc = 0 ] && rc=1
  fi
done
exit $rc
