#!/bin/bash
# runs every quick check under several VERIF_SEED values; prints only what is not a clean pass
cd "$(dirname "$0")/.."
for seed in ${@:-1 2 7 12345}; do
  for id in C01 C02 C03 C04 C05 C06 C07 C08 C09 C10 C11 C12 C13 C14 C15 C16 C17 C18 C19 C20; do
    out=$(VERIF_SEED=$seed VERIF_NO_EVIDENCE=1 /venv/bin/python -m mc.run $id --tier quick 2>&1 | grep -v conda); rc=$?
    if echo "$out" | grep -q "VIOLATION\|HARNESS\|Traceback"; then echo "!! seed=$seed $id"; echo "$out" | grep "VIOLATION\|HARNESS\|class:\|Error" | head -5; else echo "ok seed=$seed $id"; fi
  done
done
