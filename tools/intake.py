#!/venv/bin/python
"""usage: tools/intake.py <agent worktree> <k> <seed id> <property> [check ids...] [--tier quick|thorough]

Confirms a seeded change delivered by a sub-agent in a fresh scratch worktree of /repo (outside /repo and /verif):
patch applies, the 69 tests pass, the demonstration fails with the change and passes without; then runs the named
checks against the changed tree.  Stores patch.diff, demo.py, meta.json under /verif/seeded/<seed id>/ if confirmed.
"""
import json, os, shutil, subprocess, sys, tempfile, time

def sh(cmd, **kw):
    return subprocess.run(cmd, shell=True, capture_output=True, text=True, **kw)

def main():
    args = [a for a in sys.argv[1:] if not a.startswith("--")]
    tier = "thorough" if "--tier=thorough" in sys.argv else "quick"
    agent, k, sid, prop = args[:4]
    checks = args[4:] or [prop]
    patch = os.path.join(agent, f"patch{k}.diff")
    demo = os.path.join(agent, f"demo{k}.py")
    desc = os.path.join(agent, f"desc{k}.txt")
    for f in (patch, demo):
        if not os.path.exists(f):
            print("MISSING", f); return 3
    wt = tempfile.mkdtemp(prefix="intake-", dir="/tmp"); os.rmdir(wt)
    if sh(f"git -C /repo worktree add -q --detach {wt} HEAD").returncode:
        print("cannot create worktree"); return 3
    meta = {"id": sid, "property": prop, "source": "sub-agent (given only the property text and a scratch worktree)",
            "needs": open(desc).read().strip() if os.path.exists(desc) else "", "ran": {}}
    try:
        demo_src = open(demo).read().replace(agent, wt)
        open(os.path.join(wt, "demo.py"), "w").write(demo_src)
        env = f"cd {wt} && PYTHONPATH={wt}/src"
        r0 = sh(f"{env} /venv/bin/python demo.py")
        meta["ran"]["demo_clean_exit"] = r0.returncode
        ap = sh(f"git -C {wt} apply {patch}")
        if ap.returncode:
            ap = sh(f"git -C {wt} apply --3way {patch} && git -C {wt} reset -q")
            meta["ran"]["applied_with"] = "git apply --3way (the tree moved on since the change was written)"
        if ap.returncode:
            print("PATCH-DOES-NOT-APPLY", ap.stderr[:300]); return 3
        t = sh(f"{env} /venv/bin/python -m pytest -q -p no:cacheprovider 2>&1 | tail -1")
        meta["ran"]["tests"] = t.stdout.strip()
        r1 = sh(f"{env} /venv/bin/python demo.py")
        meta["ran"]["demo_patched_exit"] = r1.returncode
        meta["ran"]["demo_patched_output"] = (r1.stdout + r1.stderr)[-400:]
        ok = "69 passed" in t.stdout and r0.returncode == 0 and r1.returncode != 0
        print(f"tests: {t.stdout.strip()} | demo clean={r0.returncode} patched={r1.returncode} -> {'CONFIRMED' if ok else 'REJECTED'}")
        if not ok:
            print((r0.stdout + r0.stderr)[-300:]); return 4
        det = {}
        for c in checks:
            t0 = time.time()
            p = sh(f"cd /verif && CMINX_REPO={wt} CMINX_SRC={wt}/src VERIF_NO_EVIDENCE=1 /venv/bin/python -m mc.run {c} --tier {tier} 2>&1 | grep -v conda")
            hit = f"VIOLATION property={c}" in p.stdout
            first = next((l.strip() for l in p.stdout.split("\n") if l.startswith("    ")), "")
            det[c] = {"detected": hit, "tier": tier, "seconds": round(time.time() - t0, 1), "first_message": first[:300]}
            print(f"  {c}: {'DETECTED' if hit else 'MISSED'} ({det[c]['seconds']}s) {first[:200]}")
            if "HARNESS-FAULT" in p.stdout + p.stderr:
                print("   HARNESS-FAULT:", (p.stdout + p.stderr)[-300:])
        meta["checks"] = det
        out = os.path.join("/verif/seeded", sid)
        os.makedirs(out, exist_ok=True)
        shutil.copy(patch, os.path.join(out, "patch.diff"))
        open(os.path.join(out, "demo.py"), "w").write(open(demo).read().replace(agent, "<worktree>"))
        json.dump(meta, open(os.path.join(out, "meta.json"), "w"), indent=1)
        return 0 if all(d["detected"] for d in det.values()) else 1
    finally:
        sh(f"git -C /repo worktree remove --force {wt}")
        shutil.rmtree(wt, ignore_errors=True)
        sh("git -C /repo worktree prune")

sys.exit(main())
