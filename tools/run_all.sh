#!/bin/bash
# usage: tools/run_all.sh quick|thorough [ids...]   - runs checks sequentially, prints one summary line each
tier=${1:-quick}; shift
ids=${@:-C01 C02 C03 C04 C05 C06 C07 C08 C09 C10 C11 C12 C13 C14 C15 C16 C17 C18 C19 C20}
for id in $ids; do
  s=$(date +%s)
  out=$(cd "$(dirname "$0")/.." && /venv/bin/python -m mc.run $id --tier $tier 2>&1 | grep -v conda)
  rc=$?
  e=$(date +%s)
  echo "== $id rc=$(echo "$out" | grep -c '^VIOLATION') t=$((e-s))s :: $(echo "$out" | grep -E '^\[C' | cut -c1-200)"
  echo "$out" | grep -E "VIOLATION|HARNESS|KNOWN-FINDING|class:|Traceback|Error" | cut -c1-300 | head -12
done
