#!/venv/bin/python
"""Regenerates the table of DESIGN.md 10.4 (between the detection-table markers) from seeded/*/meta.json.
usage: tools/gen_detection_table.py [--write]   (without --write: print the block)"""
import glob, json, re, sys

rows, own, neigh, out, missed_first, nm = [], 0, 0, 0, 0, 0
outs = []
metas = [json.load(open(p)) for p in sorted(glob.glob("/verif/seeded/*/meta.json"))]
for m in metas:
    sid, prop = m["id"], m["property"]
    checks = m.get("checks", {})
    rep = ", ".join(f"{c} {'yes' if v.get('detected') else 'no'}" for c, v in sorted(checks.items(), key=lambda kv: (kv[0] != prop and kv[1].get("detected") is not True, kv[0])))
    det_own = checks.get(prop, {}).get("detected")
    det_other = any(v.get("detected") for c, v in checks.items() if c != prop)
    if det_own:
        own += 1
    elif det_other:
        neigh += 1
    else:
        out += 1
        outs.append(sid)
    fa = m.get("first_attempt", "")
    first = "detected" if fa.startswith("detected") else "missed" if fa.startswith("missed") else "fault" if "fault" in fa else "n/m"
    if first in ("missed", "fault"):
        missed_first += 1
    if first == "n/m":
        nm += 1
    what = m.get("strengthening") or m.get("verdict") or "-"
    rows.append(f"| {sid} | {rep} | {first} | {what.replace('|', '/').replace(chr(10), ' ')} |")
rounds = sorted({m.get("round", 1) for m in metas})
block = [f"{missed_first} of the {len(metas)} changes escaped the checks as they stood when the change was written ({nm} more were not measured",
         "because the check had already been extended after reading the agent's report).  Every escape led to a larger alphabet, a",
         "further dimension of the space, a finer canonical state key or a harness repair - never to a looser oracle.  "
         f"{own} are now",
         f"reported by the check of their own property, {neigh} by the check of a neighbouring property in whose space the mechanism",
         f"lies (named in the table), and {out} ({', '.join(outs)}) are not reported: they lie outside the property's domain or outside what the checks drive (see their verdicts).", "",
         "`first`: result of the first run of the quick check as it stood (n/m = not measured, fault = harness fault).", "",
         "| seed | reported by (quick tier) | first | what was strengthened / verdict |", "|---|---|---|---|"] + rows
text = "\n".join(block)
if "--write" in sys.argv:
    p = "/verif/DESIGN.md"
    s = open(p).read()
    a, b = "<!-- detection-table:begin -->", "<!-- detection-table:end -->"
    assert a in s and b in s
    s = s[:s.index(a) + len(a)] + "\n" + text + "\n" + s[s.index(b):]
    open(p, "w").write(s)
    print(f"written: {len(metas)} seeds, own {own}, neighbour {neigh}, other {out}, escaped first {missed_first}, n/m {nm}")
else:
    print(text)
